"""Runner: shards the sub-checks of one property over worker processes, merges the
results, writes the evidence file, prints VIOLATION / KNOWN-FINDING lines.

Exit codes: 0 property held on everything explored; 1 at least one violation that is not
a listed known finding; 2 harness error (never reported as a violation).
"""

from __future__ import annotations

import glob
import hashlib
import importlib
import os
import shutil
import subprocess
import sys
import time

from . import env

env.setup()

from .core import SubCheck, case_hash, dumps, loads  # noqa: E402

VERIF = env.VERIF_DIR
PY = sys.executable
MAX_PROCS = int(os.environ.get("VERIF_PROCS", "16"))


def find_module(prop: str) -> str:
    hits = sorted(glob.glob(os.path.join(VERIF, "checks", prop.lower() + "_*.py")))
    if not hits:
        raise SystemExit(f"no check module for {prop}")
    return os.path.basename(hits[0])[:-3]


def derive_seed(base: int, *parts) -> int:
    h = hashlib.sha256(("|".join(map(str, (base,) + parts))).encode()).digest()
    return int.from_bytes(h[:4], "big")


def parse_findings(prop: str):
    """Return dict key -> text of the known findings listed for the property."""
    res = {}
    path = os.path.join(VERIF, "KNOWN_FINDINGS.txt")
    if not os.path.exists(path):
        return res
    for line in open(path):
        line = line.strip()
        if not line.startswith("finding:"):
            continue
        body = line[len("finding:") :].strip()
        toks = body.split(None, 2)
        if len(toks) < 3 or not toks[0].startswith("property=") or not toks[1].startswith("key="):
            continue
        if toks[0][len("property=") :] != prop:
            continue
        res[toks[1][len("key=") :]] = toks[2]
    return res


def worker_env(sub: SubCheck, prop: str = "") -> dict:
    e = dict(os.environ)
    e["VERIF_KNOWN_KEYS"] = dumps(sorted(parse_findings(prop))) if prop else "[]"
    e["PYTHONHASHSEED"] = "0"
    e["PYTHONPATH"] = VERIF + os.pathsep + env.REPO
    e["PYPDE_REPO"] = env.REPO
    e[env.GUARD] = "1"
    e["NUMBA_NUM_THREADS"] = str(max(1, sub.threads))
    e["OMP_NUM_THREADS"] = "1"
    e["OPENBLAS_NUM_THREADS"] = "1"
    e["MKL_NUM_THREADS"] = "1"
    e["MPLBACKEND"] = "agg"
    e.pop("NUMBA_DISABLE_JIT", None)
    if sub.mode == "nojit":
        e["NUMBA_DISABLE_JIT"] = "1"
    e.update(sub.env)
    return e


def run_property(prop: str, tier: str, seed: int, replay: str | None = None,
                 only: list[str] | None = None, scale: float = 1.0) -> int:
    t0 = time.time()
    module = find_module(prop)
    mod = importlib.import_module("checks." + module)
    subs: list[SubCheck] = list(mod.SUBCHECKS)
    if only:
        subs = [s for s in subs if s.name in only]
    work = os.path.join(VERIF, ".work", prop, str(os.getpid()))
    shutil.rmtree(work, ignore_errors=True)
    os.makedirs(work)

    jobs = []  # (sub, label, argv)
    if replay:
        with open(replay) as fh:
            entry = loads(fh.read())
        sub = next(s for s in mod.SUBCHECKS if s.name == entry["sub"])
        subs = [sub]
        rf = os.path.join(work, "replay_in.json")
        with open(rf, "w") as fh:
            fh.write(dumps([{"case": entry["case"]}]))
        out = os.path.join(work, "replay_out.json")
        jobs.append((sub, "replay", [module, sub.name, tier, "0", "0", out, rf], out, True))
    else:
        # regression tier: committed minimal cases, replayed first
        regs = {}
        for path in sorted(glob.glob(os.path.join(VERIF, "regressions", prop, "*.json"))):
            with open(path) as fh:
                entry = loads(fh.read())
            entry["_file"] = os.path.relpath(path, VERIF)
            regs.setdefault(entry["sub"], []).append(entry)
        for sub in mod.SUBCHECKS:
            if sub.name in regs and (not only or sub.name in only):
                rf = os.path.join(work, f"reg_{sub.name}_in.json")
                with open(rf, "w") as fh:
                    fh.write(dumps(regs[sub.name]))
                out = os.path.join(work, f"reg_{sub.name}_out.json")
                jobs.append((sub, "regression", [module, sub.name, tier, "0", "0", out, rf], out, True))
        for sub in subs:
            k = max(1, sub.shards[tier])
            total = max(1, int(sub.budget[tier] * scale))
            k = min(k, total)
            for i in range(k):
                n = total // k + (1 if i < total % k else 0)
                out = os.path.join(work, f"{sub.name}_{i}.json")
                s = derive_seed(seed, prop, sub.name, i)
                jobs.append((sub, f"shard{i}", [module, sub.name, tier, str(s), str(n), out], out, False))

    # ---- run the jobs on a bounded pool ------------------------------------------
    running = []
    retries = {}
    pending = list(jobs)
    finished = []
    procs_used = 0
    while pending or running:
        while pending and procs_used + max(1, pending[0][0].threads) <= MAX_PROCS or (pending and not running):
            job = pending.pop(0)
            sub = job[0]
            logf = open(job[3] + ".log", "w")
            p = subprocess.Popen([PY, "-m", "vlib.worker"] + job[2], cwd=VERIF,
                                 env=worker_env(sub, prop), stdout=logf, stderr=subprocess.STDOUT)
            running.append((p, job, logf))
            procs_used += max(1, sub.threads)
        time.sleep(0.05)
        for item in list(running):
            p, job, logf = item
            if p.poll() is not None:
                running.remove(item)
                procs_used -= max(1, job[0].threads)
                logf.close()
                if p.returncode is not None and p.returncode < 0 and not os.path.exists(job[3]) \
                        and retries.get(job[3], 0) < 5:
                    # the worker was killed by a signal (observed: rare SIGSEGV inside native third-party code,
                    # another shard each time with the same seed, i.e. not a function of the cases): the shard
                    # is run again in a fresh process; a shard that dies six times is a harness error
                    retries[job[3]] = retries.get(job[3], 0) + 1
                    print(f"[runner] worker of {job[0].name}/{job[1]} died with signal {-p.returncode}; "
                          f"restart {retries[job[3]]}", file=sys.stderr)
                    pending.insert(0, job)
                    continue
                finished.append((job, p.returncode))

    # ---- merge --------------------------------------------------------------------
    findings = parse_findings(prop)
    per_sub = {}
    harness = []
    violations = []  # (sub, vio)
    known_hit = {}
    for job, rc in finished:
        sub, label, argv, out, is_replay = job
        d = per_sub.setdefault(sub.name, {
            "mode": sub.mode, "evaluations": 0, "rejected": 0, "skipped_time": 0, "nt": set(),
            "labels": {}, "samples": [], "regressions_replayed": 0, "wall_s": 0.0,
            "reject_samples": []})
        if not os.path.exists(out):
            log = open(out + ".log").read()[-3000:] if os.path.exists(out + ".log") else ""
            harness.append(f"{sub.name}/{label}: worker died rc={rc}\n{log}")
            continue
        with open(out) as fh:
            res = loads(fh.read())
        for h in res["harness_errors"]:
            harness.append(f"{sub.name}/{label}: {h}")
        if is_replay:
            d["regressions_replayed"] += res["evaluations"]
        else:
            d["evaluations"] += res["evaluations"]
            d["rejected"] += res["rejected"]
            d["skipped_time"] += res["skipped_time"]
            d["nt"].update(res["nt"])
            for k, v in res["labels"].items():
                d["labels"][k] = d["labels"].get(k, 0) + v
            if len(d["samples"]) < 2:
                d["samples"].extend(res["samples"][: 2 - len(d["samples"])])
            for r in res["reject_samples"]:
                if len(d["reject_samples"]) < 3:
                    d["reject_samples"].append(r)
        d["wall_s"] = max(d["wall_s"], res["wall_s"])
        for vio in res["violations"]:
            if vio["key"] in findings:
                known_hit[vio["key"]] = known_hit.get(vio["key"], 0) + vio.get("count", 1)
            else:
                violations.append((sub, vio))

    for name, d in per_sub.items():
        sub = next(s for s in mod.SUBCHECKS if s.name == name)
        if d["evaluations"] >= 20 and d["rejected"] > sub.max_reject * d["evaluations"]:
            harness.append(
                f"{name}: rejection rate {d['rejected']}/{d['evaluations']} above "
                f"{sub.max_reject:.0%} - generator or code under test broken; samples: "
                + " | ".join(d["reject_samples"]))

    # ---- report -------------------------------------------------------------------
    for key, cnt in sorted(known_hit.items()):
        print(f"KNOWN-FINDING: property={prop} {findings[key]} [key={key}, reproduced {cnt}x]")
    seen = set()
    nviol = 0
    rdir = os.path.join(VERIF, "replays", prop)
    for sub, vio in violations:
        bucket = (sub.name, vio["key"])
        if bucket in seen:
            continue
        seen.add(bucket)
        nviol += 1
        os.makedirs(rdir, exist_ok=True)
        path = os.path.join(rdir, f"{sub.name}-{case_hash([vio['key'], vio['case']])}.json")
        with open(path, "w") as fh:
            fh.write(dumps({"property": prop, "sub": sub.name, "key": vio["key"],
                            "detail": vio["detail"], "case": vio["case"]}, indent=1))
        print(f"VIOLATION property={prop} replay={path}")
        print(f"  sub-check={sub.name} key={vio['key']} detail={vio['detail'][:600]}")

    if not replay and not only:
        write_evidence(prop, mod, tier, seed, per_sub, nviol, known_hit, time.time() - t0, harness)
    shutil.rmtree(work, ignore_errors=True)
    try:
        os.rmdir(os.path.dirname(work))
    except OSError:
        pass

    summary = ", ".join(f"{n}:{d['evaluations']}/{len(d['nt'])}nt" for n, d in per_sub.items())
    print(f"[{prop}] tier={tier} seed={seed} wall={time.time() - t0:.1f}s violations={nviol} "
          f"known={len(known_hit)} harness_errors={len(harness)} :: {summary}")
    if harness:
        for h in harness[:10]:
            print("HARNESS-ERROR: " + h, file=sys.stderr)
    if nviol:
        return 1
    if harness:
        return 2
    return 0


def write_evidence(prop, mod, tier, seed, per_sub, nviol, known_hit, wall, harness):
    subs = {s.name: s for s in mod.SUBCHECKS}
    evaluations = sum(d["evaluations"] for d in per_sub.values())
    distinct = sum(len(d["nt"]) for d in per_sub.values())
    samples = []
    detail = {}
    rules = []
    for name, d in per_sub.items():
        for smp in d["samples"][:1]:
            samples.append({"sub_check": name, "case": smp})
        top = sorted(d["labels"].items(), key=lambda kv: -kv[1])[:40]
        detail[name] = {
            "mode": d["mode"],
            "evaluations": d["evaluations"],
            "distinct_nontrivial": len(d["nt"]),
            "rejected_by_code": d["rejected"],
            "skipped_time_budget": d["skipped_time"],
            "regressions_replayed": d["regressions_replayed"],
            "class_histogram": dict(top),
            "wall_s": round(d["wall_s"], 2),
        }
        if subs[name].rule:
            rules.append(f"{name}: {subs[name].rule}")
    ev = {
        "property_id": prop,
        "tier": tier,
        "seed": int(seed),
        "level": "exploration",
        "coverage": {
            "evaluations": int(evaluations),
            "distinct_nontrivial": int(distinct),
            "rule": getattr(mod, "RULE", "") + " || per sub-check: " + " ; ".join(rules),
            "samples": samples,
            "sub_checks": detail,
            "known_findings_reproduced": known_hit,
            "harness_errors": len(harness),
            "technique": "property-based testing (Hypothesis strategies / rule-based state machines), oracle per sub-check",
        },
        "assumptions": list(getattr(mod, "ASSUMPTIONS", [])),
        "wall_s": round(wall, 2),
        "violations": int(nviol),
    }
    # evidence describes runs against /repo itself; runs against a scratch copy (planted
    # mutations, seeded changes: PYPDE_REPO) must not overwrite it
    evdir = os.path.join(VERIF, "evidence") if env.REPO == "/repo" else os.path.join(VERIF, ".work", "evidence_scratch")
    os.makedirs(evdir, exist_ok=True)
    with open(os.path.join(evdir, prop + ".json"), "w") as fh:
        fh.write(dumps(ev, indent=1))
