"""Locate the repository under test and make sure it is the one that gets imported.

The repository is taken from ``PYPDE_REPO`` (default ``/repo``).  It is put first on
``sys.path`` so that a scratch copy overrides the editable install of ``/venv``.
"""

from __future__ import annotations

import os
import sys

VERIF_DIR = os.path.dirname(os.path.dirname(os.path.abspath(__file__)))
REPO = os.path.abspath(os.environ.get("PYPDE_REPO", "/repo"))
GUARD = "PYPDE_VERIF"


def setup() -> str:
    """Prepare ``sys.path``; must run before ``pde`` is imported."""
    if REPO not in sys.path[:1]:
        sys.path.insert(0, REPO)
    if VERIF_DIR not in sys.path:
        sys.path.insert(1, VERIF_DIR)
    return REPO


def import_pde():
    """Import ``pde`` from the repository under test (harness error otherwise)."""
    setup()
    import pde

    path = os.path.abspath(pde.__file__)
    if not path.startswith(REPO + os.sep):
        raise RuntimeError(f"pde imported from {path}, expected below {REPO}")
    return pde
