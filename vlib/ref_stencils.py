"""Reference stencils of py-pde's differential operators (property C01, part a).

Vectorised NumPy re-statement of the *documented* discretisations, written from the
coordinate-form formulas of each coordinate system (not from the loops in the code):

* Cartesian (x, y, z): central / forward / backward differences, (2n+1)-point Laplacian;
* polar (r, phi), fields independent of phi:   lap s = s'' + s'/r,   div v = v_r' + v_r/r,
  (grad v)_{ij} = d_j v_i,   (div T)_i = d_j T_{ij};
* spherical (r, theta, phi), fields independent of the angles: non-conservative forms
  (lap s = s'' + 2 s'/r, ...) and the conservative finite-volume forms
  ``(A_h F_h - A_l F_l) / V`` with face areas ``r^2`` and shell volumes ``(r_h^3 - r_l^3)/3``;
* cylindrical (r, z, phi), fields independent of phi.

Every operator takes the ghost-padded array (``N + 2`` entries per grid axis) and returns
the values in the valid cells.  All arithmetic is carried out on :class:`Lin` objects that
carry, next to the value, the running bound ``sum_j |w_j| |u_j|`` of the linear
combination; :func:`tolerance` turns it into the admissible deviation
``eps * bound * (64 + 16 kappa)``, where ``kappa`` measures how well the grid geometry
itself (cell size, shell volumes) is determined by the bounds handed to the constructor
(``max|bound| / length`` per axis, times the number of cells for the spherical shell volumes
``r_h^3 - r_l^3``); coefficients that contain the inner face radius ``r_l = r - dr/2`` carry an
additional relative uncertainty ``4 eps r / r_l`` per power of ``r_l`` (:meth:`Lin.times`).

The geometry (cell size, cell centres) is computed here from the *spec* by the documented
formula ``x_i = x_min + (i + 1/2) dx,  dx = (x_max - x_min) / N`` - never taken from the
grid object.
"""

from __future__ import annotations

import numpy as np

EPS = float(np.finfo(float).eps)

METHODS = ("central", "forward", "backward")


# ----------------------------------------------------------------------------------------
# geometry from the spec
# ----------------------------------------------------------------------------------------
class Geometry:
    """Cell sizes and radial coordinates of the grid described by a ``gen_grids`` spec."""

    def __init__(self, spec):
        cls = spec["cls"]
        self.cls = cls
        self.shape = tuple(int(n) for n in spec["shape"])
        self.num_axes = len(self.shape)
        if cls == "unit":
            bounds = [(0.0, float(n)) for n in self.shape]
        elif cls == "cart":
            bounds = [(float(a), float(b)) for a, b in spec["bounds"]]
        elif cls in ("polar", "sph"):
            bounds = [tuple(map(float, spec["radius"]))]
        elif cls == "cyl":
            bounds = [tuple(map(float, spec["radius"])), tuple(map(float, spec["bounds_z"]))]
        else:
            raise ValueError(cls)
        self.bounds = bounds
        self.family = {"unit": "cart", "cart": "cart"}.get(cls, cls)
        self.dim = {"cart": self.num_axes, "polar": 2, "sph": 3, "cyl": 3}[self.family]
        self.axes = {"cart": ["x", "y", "z"][: self.num_axes], "polar": ["r"], "sph": ["r"],
                     "cyl": ["r", "z"]}[self.family]
        if cls == "unit":
            self.dx = [1.0] * self.num_axes
        else:
            self.dx = [(hi - lo) / n for (lo, hi), n in zip(bounds, self.shape)]
        # conditioning of the geometry: relative uncertainty of dx in units of eps
        self.kappa = max(max(abs(lo), abs(hi)) / (hi - lo) for lo, hi in bounds)
        if self.family != "cart":
            r_in = bounds[0][0]
            n = self.shape[0]
            self.r_in = r_in
            self.dr = self.dx[0]
            r = r_in + (np.arange(n) + 0.5) * self.dr
            self.r_lo = r_in + np.arange(n) * self.dr  # inner faces
            self.r_hi = r_in + (np.arange(n) + 1.0) * self.dr  # outer faces
            # "r_l = r - dr/2" determines the inner face only up to eps*r: relative uncertainty
            # of r_l in units of eps (the innermost face of a hole-free grid is exactly 0)
            with np.errstate(divide="ignore", invalid="ignore"):
                self.rel_lo = np.where(self.r_lo > 0, 4.0 * r / np.where(self.r_lo > 0, self.r_lo, 1.0), 0.0)
            if self.family == "cyl":  # broadcast over z
                r = r[:, None]
            self.r = r

    def coords_full(self, axis):
        """cell-centre coordinates along ``axis`` including the two ghost cells"""
        lo = self.bounds[axis][0]
        return lo + (np.arange(-1, self.shape[axis] + 1) + 0.5) * self.dx[axis]


# ----------------------------------------------------------------------------------------
# values with running condition bound
# ----------------------------------------------------------------------------------------
class Lin:
    """value ``v`` of a linear combination together with ``b = sum |w_j||u_j|``"""

    __slots__ = ("v", "b")

    def __init__(self, v, b=None):
        self.v = v
        self.b = np.abs(v) if b is None else b

    def __add__(self, o):
        return Lin(self.v + o.v, self.b + o.b)

    def __sub__(self, o):
        return Lin(self.v - o.v, self.b + o.b)

    def __neg__(self):
        return Lin(-self.v, self.b)

    def __mul__(self, c):
        return Lin(self.v * c, self.b * np.abs(c))

    __rmul__ = __mul__

    def __truediv__(self, c):
        return Lin(self.v / c, self.b / np.abs(c))

    def times(self, c, rel=0.0):
        """multiply with a coefficient that is itself only known up to ``rel * eps`` relative"""
        return Lin(self.v * c, self.b * np.abs(c) * (1.0 + np.asarray(rel) / 64.0))

    def square(self):
        """plain (not absolute) square, as the documented ``(d u)**2``"""
        return Lin(self.v * self.v, 3.0 * self.b * self.b)


def zero_like(x: Lin) -> Lin:
    z = np.zeros_like(x.v)
    return Lin(z, np.zeros(z.shape))


def stack(items):
    """stack a (nested) list of Lin objects along new leading axes"""
    if isinstance(items, Lin):
        return items
    parts = [stack(it) for it in items]
    return Lin(np.stack([p.v for p in parts]), np.stack([p.b for p in parts]))


# ----------------------------------------------------------------------------------------
# primitive stencils along one axis
# ----------------------------------------------------------------------------------------
def sh(a, nax, axis, k):
    """valid cells of the padded array ``a`` (last ``nax`` axes) shifted by ``k`` along axis"""
    idx = [slice(1, -1)] * nax
    n = a.shape[a.ndim - nax + axis]
    idx[axis] = slice(1 + k, n - 1 + k)
    return Lin(a[(Ellipsis, *idx)])


def d1(a, g: Geometry, axis, method="central"):
    nax, dx = g.num_axes, g.dx[axis]
    if method == "central":
        return (sh(a, nax, axis, 1) - sh(a, nax, axis, -1)) / (2 * dx)
    if method == "forward":
        return (sh(a, nax, axis, 1) - sh(a, nax, axis, 0)) / dx
    if method == "backward":
        return (sh(a, nax, axis, 0) - sh(a, nax, axis, -1)) / dx
    raise ValueError(method)


def d2(a, g: Geometry, axis):
    nax, dx = g.num_axes, g.dx[axis]
    return (sh(a, nax, axis, 1) - sh(a, nax, axis, 0) * 2 + sh(a, nax, axis, -1)) / dx**2


def ctr(a, g: Geometry):
    return sh(a, g.num_axes, 0, 0)


def mean_sq_fb(a, g, axis):
    """mean of the squared forward and backward difference quotients"""
    return (d1(a, g, axis, "forward").square() + d1(a, g, axis, "backward").square()) / 2


def _sum(items):
    items = list(items)
    res = items[0]
    for it in items[1:]:
        res = res + it
    return res


# ----------------------------------------------------------------------------------------
# operators per coordinate system; every function returns a (nested list of) Lin
# ----------------------------------------------------------------------------------------
def _cart(g, op, o, a):
    ax = range(g.num_axes)
    m = o.get("method", "central")
    if op == "laplace":
        return _sum(d2(a, g, i) for i in ax)
    if op == "gradient":
        return [d1(a, g, i, m) for i in ax]
    if op == "gradient_squared":
        if o.get("central", True):
            return _sum(d1(a, g, i).square() for i in ax)
        return _sum(mean_sq_fb(a, g, i) for i in ax)
    if op == "divergence":
        return _sum(d1(a[i], g, i, m) for i in ax)
    if op == "vector_gradient":  # (grad v)_{ij} = d_j v_i
        return [[d1(a[i], g, j, m) for j in ax] for i in ax]
    if op == "vector_laplace":
        return [_sum(d2(a[i], g, j) for j in ax) for i in ax]
    if op == "tensor_divergence":  # (div T)_i = sum_j d_j T_{ij}
        return [_sum(d1(a[i, j], g, j, m) for j in ax) for i in ax]
    raise KeyError(op)


def _polar(g, op, o, a):
    r = g.r
    if op == "laplace":
        return d2(a, g, 0) + d1(a, g, 0) / r
    if op == "gradient":
        dr_s = d1(a, g, 0, o.get("method", "central"))
        return [dr_s, zero_like(dr_s)]
    if op == "gradient_squared":
        return d1(a, g, 0).square() if o.get("central", True) else mean_sq_fb(a, g, 0)
    if op == "divergence":
        return d1(a[0], g, 0) + ctr(a[0], g) / r
    if op == "vector_gradient":
        v_r, v_p = a[0], a[1]
        return [[d1(v_r, g, 0), -(ctr(v_p, g) / r)],
                [d1(v_p, g, 0), ctr(v_r, g) / r]]
    if op == "tensor_divergence":
        return [d1(a[0, 0], g, 0) + (ctr(a[0, 0], g) - ctr(a[1, 1], g)) / r,
                d1(a[1, 0], g, 0) + (ctr(a[0, 1], g) + ctr(a[1, 0], g)) / r]
    raise KeyError(op)


#: default of the option ``conservative`` when it is not passed (operators.conservative_stencil
#: is True by default; the signature of tensor_divergence fixes False)
SPH_CONSERVATIVE_DEFAULT = {"laplace": True, "divergence": True, "tensor_divergence": False,
                            "tensor_double_divergence": True}


def sph_conservative(op, o):
    c = o.get("conservative", "absent")
    if c == "absent":
        return SPH_CONSERVATIVE_DEFAULT[op]
    if c is None:  # documented: read from the configuration (default True)
        return True
    return bool(c)


def _flux(g, hi: Lin, lo: Lin):
    """(r_h^2 hi - r_l^2 lo) / V  with the shell volume V = (r_h^3 - r_l^3) / 3"""
    vol = (g.r_hi**3 - g.r_lo**3) / 3
    return hi.times(g.r_hi**2 / vol, 8.0) - lo.times(g.r_lo**2 / vol, 2 * g.rel_lo)


def _sph(g, op, o, a):
    r, dr = g.r, g.dr
    m = o.get("method", "central")

    def up(c):  # value one cell outwards / this cell / inwards
        return sh(c, 1, 0, 1)

    def dn(c):
        return sh(c, 1, 0, -1)

    def face_hi(c):
        return (ctr(c, g) + up(c)) / 2

    def face_lo(c):
        return (dn(c) + ctr(c, g)) / 2

    if op == "laplace":
        if sph_conservative(op, o):
            return _flux(g, (up(a) - ctr(a, g)) / dr, (ctr(a, g) - dn(a)) / dr)
        return d2(a, g, 0) + d1(a, g, 0) * 2 / r
    if op == "gradient":
        dr_s = d1(a, g, 0, m)
        return [dr_s, zero_like(dr_s), zero_like(dr_s)]
    if op == "gradient_squared":
        return d1(a, g, 0).square() if o.get("central", True) else mean_sq_fb(a, g, 0)
    if op == "divergence":
        v = a[0]
        if sph_conservative(op, o):
            if m == "central":
                return _flux(g, face_hi(v), face_lo(v))
            if m == "forward":
                return _flux(g, up(v), ctr(v, g))
            return _flux(g, ctr(v, g), dn(v))
        return d1(v, g, 0, m) + ctr(v, g) * 2 / r
    if op == "vector_gradient":
        v = a[0]
        rr = d1(v, g, 0, m)
        z = zero_like(rr)
        return [[rr, z, z], [z, ctr(v, g) / r, z], [z, z, ctr(v, g) / r]]
    if op == "tensor_divergence":
        if sph_conservative(op, o):
            vol = (g.r_hi**3 - g.r_lo**3) / 3
            out_r = _flux(g, face_hi(a[0, 0]), face_lo(a[0, 0])) \
                - ctr(a[2, 2], g).times((g.r_hi**2 - g.r_lo**2) / vol, 8.0)
            return [out_r, zero_like(out_r), zero_like(out_r)]
        return [d1(a[0, 0], g, 0) + (ctr(a[0, 0], g) - ctr(a[2, 2], g)) * 2 / r,
                d1(a[1, 0], g, 0) + ctr(a[1, 0], g) * 2 / r,
                d1(a[2, 0], g, 0) + (ctr(a[2, 0], g) * 2 + ctr(a[0, 2], g)) / r]
    if op == "tensor_double_divergence":
        t_rr, t_pp = a[0, 0], a[2, 2]
        if sph_conservative(op, o):
            # flux of w = (div T)_r = T_rr' + 2 (T_rr - T_pp)/r through the faces;
            # r^2 w = r^2 T_rr' + 2 r (T_rr - T_pp)  (no division by the face radius)
            vol = (g.r_hi**3 - g.r_lo**3) / 3
            hi = ((up(t_rr) - ctr(t_rr, g)) / dr).times(g.r_hi**2 / vol, 8.0) \
                + (face_hi(t_rr) - face_hi(t_pp)).times(2 * g.r_hi / vol, 8.0)
            lo = ((ctr(t_rr, g) - dn(t_rr)) / dr).times(g.r_lo**2 / vol, 2 * g.rel_lo) \
                + (face_lo(t_rr) - face_lo(t_pp)).times(2 * g.r_lo / vol, g.rel_lo)
            return hi - lo
        return d2(t_rr, g, 0) + d1(t_rr, g, 0) * 2 / r \
            + (d1(t_rr, g, 0) - d1(t_pp, g, 0)) * 2 / r \
            + (ctr(t_rr, g) - ctr(t_pp, g)) * 2 / r**2
    raise KeyError(op)


def _cyl(g, op, o, a):
    r = g.r

    def lap(s):
        return d2(s, g, 0) + d1(s, g, 0) / r + d2(s, g, 1)

    if op == "laplace":
        return lap(a)
    if op == "gradient":
        dr_s = d1(a, g, 0)
        return [dr_s, d1(a, g, 1), zero_like(dr_s)]
    if op == "gradient_squared":
        if o.get("central", True):
            return d1(a, g, 0).square() + d1(a, g, 1).square()
        return mean_sq_fb(a, g, 0) + mean_sq_fb(a, g, 1)
    if op == "divergence":
        return d1(a[0], g, 0) + ctr(a[0], g) / r + d1(a[1], g, 1)
    if op == "vector_gradient":  # components (r, z, phi); (grad v)_{ij} = d_j v_i
        v_r, v_z, v_p = a[0], a[1], a[2]
        z = zero_like(ctr(v_r, g))
        return [[d1(v_r, g, 0), d1(v_r, g, 1), -(ctr(v_p, g) / r)],
                [d1(v_z, g, 0), d1(v_z, g, 1), z],
                [d1(v_p, g, 0), d1(v_p, g, 1), ctr(v_r, g) / r]]
    if op == "vector_laplace":
        v_r, v_z, v_p = a[0], a[1], a[2]
        return [lap(v_r) - ctr(v_r, g) / r**2, lap(v_z), lap(v_p) - ctr(v_p, g) / r**2]
    if op == "tensor_divergence":
        R, Z, P = 0, 1, 2
        return [d1(a[R, R], g, 0) + d1(a[R, Z], g, 1) + (ctr(a[R, R], g) - ctr(a[P, P], g)) / r,
                d1(a[Z, R], g, 0) + d1(a[Z, Z], g, 1) + ctr(a[Z, R], g) / r,
                d1(a[P, R], g, 0) + d1(a[P, Z], g, 1) + (ctr(a[R, P], g) + ctr(a[P, R], g)) / r]
    raise KeyError(op)


_FAMILY = {"cart": _cart, "polar": _polar, "sph": _sph, "cyl": _cyl}

#: operator -> (rank_in, rank_out, {option: admissible values}); 'absent' = option not passed
_M = {"method": list(METHODS)}
_C = {"conservative": [True, False, "absent"]}
TABLE = {
    "cart": {
        "laplace": (0, 0, {}), "gradient": (0, 1, _M), "gradient_squared": (0, 0, {"central": [True, False]}),
        "divergence": (1, 0, _M), "vector_gradient": (1, 2, _M), "vector_laplace": (1, 1, {}),
        "tensor_divergence": (2, 1, _M)},
    "polar": {
        "laplace": (0, 0, {}), "gradient": (0, 1, _M), "gradient_squared": (0, 0, {"central": [True, False]}),
        "divergence": (1, 0, {}), "vector_gradient": (1, 2, {}), "tensor_divergence": (2, 1, {})},
    "sph": {
        "laplace": (0, 0, _C), "gradient": (0, 1, _M), "gradient_squared": (0, 0, {"central": [True, False]}),
        "divergence": (1, 0, {**_C, **_M}), "vector_gradient": (1, 2, _M),
        "tensor_divergence": (2, 1, _C), "tensor_double_divergence": (2, 0, _C)},
    "cyl": {
        "laplace": (0, 0, {}), "gradient": (0, 1, {}), "gradient_squared": (0, 0, {"central": [True, False]}),
        "divergence": (1, 0, {}), "vector_gradient": (1, 2, {}), "vector_laplace": (1, 1, {}),
        "tensor_divergence": (2, 1, {})},
}


def parse_pattern(g: Geometry, op: str):
    """``d_d<ax>[_forward|_backward]`` / ``d2_d<ax>2`` -> (order, axis, method) or None"""
    if op.startswith("d2_d") and op.endswith("2") and op[4:-1] in g.axes:
        return 2, g.axes.index(op[4:-1]), "central"
    if op.startswith("d_d"):
        name, method = op[3:], "central"
        for m in ("forward", "backward"):
            if name.endswith("_" + m):
                name, method = name[: -len(m) - 1], m
        if name in g.axes:
            return 1, g.axes.index(name), method
    return None


def op_info(spec, op):
    """(rank_in, rank_out, options) of an operator name on the grid of ``spec``"""
    g = Geometry(spec)
    if parse_pattern(g, op) is not None:
        return 0, 0, {}
    return TABLE[g.family][op]


def known_operators(spec):
    g = Geometry(spec)
    pats = []
    for ax in g.axes:
        pats += [f"d_d{ax}", f"d_d{ax}_forward", f"d_d{ax}_backward", f"d2_d{ax}2"]
    return sorted(TABLE[g.family]) + pats


def apply(spec, op, opts, arr):
    """Reference result: ``(value, bound)`` arrays of shape ``(dim,)*rank_out + shape``."""
    g = Geometry(spec)
    pat = parse_pattern(g, op)
    if pat is not None:
        order, axis, method = pat
        res = d1(arr, g, axis, method) if order == 1 else d2(arr, g, axis)
    else:
        res = stack(_FAMILY[g.family](g, op, dict(opts), arr))
    return res.v, res.b


def tolerance(spec, op, opts, bound, extra_rel=0.0):
    """admissible deviation for a result with condition bound ``bound``

    ``extra_rel``: additional relative uncertainty of the coefficients in units of eps.
    """
    g = Geometry(spec)
    kappa = g.kappa
    if g.family == "sph":
        kappa *= g.shape[0]  # shell volumes r_h^3 - r_l^3 cancel like r/dr
    return EPS * bound * (64.0 + 16.0 * kappa + extra_rel) + 1e-300


def enforce_preconditions(spec, op, opts, arr):
    """Impose (in place, valid cells only) the symmetry the spherical operators demand.

    These are the ``safe`` assertions every caller has to respect: fields on a
    SphericalSymGrid must be expressible with spherical symmetry.
    """
    g = Geometry(spec)
    if g.family != "sph":
        return arr
    v = slice(1, -1)
    if op == "divergence":
        arr[1, v] = 0
    elif op == "vector_gradient":
        arr[1:, v] = 0
    elif op == "tensor_divergence":
        arr[0, 1, v] = 0
        arr[1, 1, v] = arr[2, 2, v]
        arr[2, 1, v] = -arr[1, 2, v]
        if sph_conservative(op, dict(opts)):
            arr[2, 0, v] = 0
            arr[0, 2, v] = 0
            arr[1, 0, v] = 0
    elif op == "tensor_double_divergence":
        arr[0, 1, v] = -arr[1, 0, v]
        arr[1, 1, v] = arr[2, 2, v]
    return arr
