"""Shared helpers of the simulation-level checks C07 (observation / accounting) and C08
(tracker scheduling): test equations, JSON-able specs + Hypothesis strategies, recording
trackers, exact rational schedule arithmetic and textbook reference maps.

Units.  Every case fixes a time step ``dt`` (a float).  All *generating* quantities are
stored in units of ``dt`` relative to the start time: the range is ``X = N + j/k`` steps
(``theta = [j, k]``, ``j == 0`` <=> whole number of steps *by construction*), a constant
interval is ``rho`` steps, offsets are ``ts`` steps ...  The floats handed to py-pde are
computed from these in :func:`times_of` / :func:`build_interrupt`; the oracles decide
"whole", "scheduled <= t_end", "floor(T/D)" ... in :class:`fractions.Fraction` arithmetic on
the generating numbers, so that they never inherit a floating-point coincidence.
"""

from __future__ import annotations

import logging
import math
from fractions import Fraction

import numpy as np
from hypothesis import strategies as st

from . import env

env.setup()

import pde  # noqa: E402
from pde.pdes.base import PDEBase  # noqa: E402
from pde.trackers.base import FinishedSimulation, TrackerBase  # noqa: E402
from pde.trackers.interrupts import (  # noqa: E402
    ConstantInterrupts,
    FixedInterrupts,
    GeometricInterrupts,
    InterruptsBase,
    LogarithmicInterrupts,
)
from pde.trackers.trackers import CallbackTracker, DataTracker  # noqa: E402

from pde.solvers.base import ConvergenceError  # noqa: E402

from .core import Rejected, Violation  # noqa: E402

logging.getLogger("pde").setLevel(logging.ERROR)

FIXED_SOLVERS = ["euler", "runge-kutta", "implicit", "crank-nicolson", "adams-bashforth"]
#: convergence threshold handed to the two fixed-point schemes
MAXERROR = 1e-13
GHOST = 777.25  # sentinel written into the ghost cells of the caller's state


def ulp(x: float) -> float:
    return float(np.spacing(abs(float(x))))


def frac(x) -> Fraction:
    """Exact rational of a generating number ([p, q] pair, int or float)."""
    if isinstance(x, (list, tuple)):
        return Fraction(int(x[0]), int(x[1]))
    return Fraction(x)


# ======================================================================================
# test equations
# ======================================================================================
class SimEq(PDEBase):
    """Test equations, defined like any user-defined PDE (both backends).

    ``lin``     du/dt = a u                     a = (z + i zi)/dt         (autonomous)
    ``nonlin``  du/dt = r (u - u^3) + d lap(u)  r = zr/dt, d = zd/dt, periodic 3-point
                                                Laplacian written out by hand (autonomous)
    ``nonauto`` du/dt = a u + b cos(w t + phi)  a = z/dt, b = zb/dt, w = zw/dt
    """

    def __init__(self, spec: dict, dt: float):
        super().__init__()
        self.spec = spec
        self.kind = spec["kind"]
        self.explicit_time_dependence = self.kind == "nonauto"
        self.complex_valued = bool(spec.get("zi"))
        if self.kind == "lin":
            a = spec["z"] / dt
            self.a = complex(a, spec["zi"] / dt) if spec.get("zi") else a
        elif self.kind == "nonlin":
            self.r = spec["zr"] / dt
            self.d = spec["zd"] / dt
        else:
            self.a = spec["z"] / dt
            self.b = spec["zb"] / dt
            self.w = spec["zw"] / dt
            self.phi = spec["phi"]

    # numpy formulation (also the formulation used by the reference maps)
    def rate(self, u, t):
        if self.kind == "lin":
            return self.a * u
        if self.kind == "nonlin":
            return self.r * (u - u**3) + self.d * (np.roll(u, 1) + np.roll(u, -1) - 2 * u)
        return self.a * u + self.b * math.cos(self.w * t + self.phi)

    def evolution_rate(self, state, t=0):
        out = state.copy()
        out.data = self.rate(state.data, t)
        return out

    def make_post_step_hook(self, state, backend="numpy"):
        """optional post-step hook with *scalar* hook data (the documented pattern
        `return post_step_hook, 0.0`): counts the steps and feeds the count back into the
        state, so that the final state depends on the hook data surviving every stepper
        call.  Added after the independently seeded change C07-3 (compiled fixed stepper passes
        the hook data captured at construction on every call) was missed."""
        if not self.spec.get("hook"):
            raise NotImplementedError

        def post_step_hook(state_data, t, post_step_data):
            post_step_data += 1.0
            state_data *= 1.0 + 1e-3 / post_step_data
            return state_data, post_step_data

        return post_step_hook, 0.0

    def make_evolution_rate(self, state, backend):
        if self.kind == "lin":
            a = self.a

            def rhs(u, t):
                return a * u

        elif self.kind == "nonlin":
            r, d = self.r, self.d

            def rhs(u, t):
                out = np.empty_like(u)
                n = u.size
                for i in range(n):
                    out[i] = r * (u[i] - u[i] ** 3) + d * (u[(i + 1) % n] + u[(i - 1) % n] - 2 * u[i])
                return out

        else:
            a, b, w, phi = self.a, self.b, self.w, self.phi

            def rhs(u, t):
                return a * u + b * np.cos(w * t + phi)

        return rhs


def eq_specs(kinds=("lin", "nonlin", "nonauto"), allow_complex=True):
    zmag = st.one_of(st.sampled_from([0.5, 0.25, 0.1, 0.3]), st.floats(0.02, 0.5))
    lin = st.builds(
        lambda z, s, zi: {"kind": "lin", "z": z * s, **({"zi": zi} if zi else {})},
        zmag, st.sampled_from([-1, -1, 1]).map(float),
        (st.sampled_from([0, 0, 0, 0.25, -0.1]) if allow_complex else st.just(0)))
    nonlin = st.builds(lambda zr, zd: {"kind": "nonlin", "zr": zr, "zd": zd},
                       st.floats(0.01, 0.2), st.sampled_from([0.0, 0.05, 0.1, 0.025]))
    nonauto = st.builds(
        lambda z, zb, sb, zw, phi: {"kind": "nonauto", "z": -z, "zb": zb * sb, "zw": zw, "phi": phi},
        zmag, st.floats(0.05, 0.5), st.sampled_from([-1.0, 1.0]), st.floats(0.05, 2.0),
        st.sampled_from([0.0, 0.5, 1.0, 2.0]))
    table = {"lin": lin, "nonlin": nonlin, "nonauto": nonauto}
    return st.one_of([table[k] for k in kinds])


# ======================================================================================
# states
# ======================================================================================
def state_specs(allow_coll=True, allow_complex=False):
    val = st.one_of(st.sampled_from([1.0, -1.0, 0.5, 2.0 / 3, 0.1]), st.floats(-1.2, 1.2))

    @st.composite
    def build(draw):
        n = draw(st.integers(1, 4))
        data = [draw(val) for _ in range(n)]
        if all(v == 0 for v in data):
            data[0] = 1.0
        spec = {"n": n, "data": data, "label": draw(st.sampled_from([None, "u", "c field"]))}
        if allow_coll and draw(st.integers(0, 5)) == 0:
            spec["data2"] = [draw(val) for _ in range(n)]
        elif allow_complex and draw(st.integers(0, 4)) == 0:
            spec["imag"] = [draw(val) for _ in range(n)]  # complex initial state
        return spec

    return build()


def build_state(spec, ghost=True):
    """Caller's initial state; ghost cells carry a sentinel (they are nobody's business)."""
    grid = pde.UnitGrid([int(spec["n"])], periodic=True)
    f = pde.ScalarField(grid, initial_array(spec) if "imag" in spec else np.array(spec["data"], dtype=float),
                        label=spec.get("label"))
    if "data2" in spec:
        f2 = pde.ScalarField(grid, np.array(spec["data2"], dtype=float), label="second")
        f = pde.FieldCollection([f, f2])
    if ghost:
        full = f._data_full
        full[..., 0] = GHOST
        full[..., -1] = -GHOST
    return f


def state_is_scalar(spec):
    return "data2" not in spec


# ======================================================================================
# time axis
# ======================================================================================
NASTY_DT = [0.1, 0.01, 0.001, 1 / 3, 0.7, 0.3, 0.2, 0.05, 0.25, 0.5, 1.0, 0.0001, 0.15]


def time_specs(max_n=200, theta="any"):
    """theta: 'any' | 'whole' | 'nowhole' (no near-whole ranges either)"""
    dt = st.one_of(st.sampled_from(NASTY_DT),
                   st.floats(-4, 0).map(lambda e: float(10.0**e)))
    t0m = st.one_of(st.just(0), st.just(0), st.integers(-100000, 100000),
                    st.floats(-1e5, 1e5), st.sampled_from([1, -1, 10, 0.5, -2.5, 1000]))
    n = st.one_of(st.integers(3, 12), st.integers(1, 40), st.integers(0, max_n), st.integers(3, max_n))
    whole = st.just([0, 1])
    generic = st.integers(2, 97).flatmap(lambda k: st.tuples(st.integers(1, k - 1), st.just(k))).map(list)
    special = st.sampled_from([[1, 2], [1, 3], [2, 3], [1, 10], [9, 10], [1, 100], [99, 100], [49, 100],
                               [51, 100]])
    near = st.sampled_from([[1, 10**7], [10**7 - 1, 10**7], [1, 10**5], [3, 10**6], [1, 10**9],
                            [10**9 - 1, 10**9], [999999, 10**6]])
    if theta == "whole":
        th = whole
    elif theta == "nowhole":
        th = st.integers(0, 5).flatmap(lambda i: [whole, whole, whole, generic, generic, special][i])
    else:
        th = st.integers(0, 9).flatmap(lambda i: [whole, whole, whole, whole, whole, generic, generic, special,
                                                  special, near][i])
    return st.builds(
        lambda dt, t0m, n, th, build, scalar: {"dt": dt, "t0m": t0m, "N": n, "theta": th, "build": build,
                                               **({"scalar": True} if scalar and not t0m else {})},
        dt, t0m, n, th, st.sampled_from(["mult", "mult", "dec"]), st.booleans())


def times_of(tspec):
    """Floats handed to py-pde: (dt, t_start, t_end) and the exact range X in steps."""
    dt = float(tspec["dt"])
    t0 = float(tspec["t0m"] * dt) if tspec["t0m"] else 0.0
    j, k = tspec["theta"]
    n = int(tspec["N"])
    x = Fraction(n) + Fraction(j, k)
    if tspec["build"] == "dec":
        # decimal product, e.g. 3 * 0.1 -> 0.3 (not 0.30000000000000004)
        length = float(Fraction(repr(dt)) * x)
    elif j == 0:
        length = n * dt
    else:
        length = (n + j / k) * dt
    return dt, t0, t0 + length, x


def theta_class(tspec):
    j, k = tspec["theta"]
    if j == 0:
        return "whole"
    th = Fraction(j, k)
    if th < Fraction(1, 1000) or th > Fraction(999, 1000):
        return "nearwhole"
    return "frac"


# ======================================================================================
# interrupts
# ======================================================================================
def rho_strategy(lo_ge_1=False):
    ints = st.integers(1, 12).map(lambda p: [p, 1])
    halves = st.integers(1, 12).map(lambda m: [2 * m + 1, 2])
    rats = st.sampled_from([3, 4, 5, 7, 10]).flatmap(
        lambda q: st.integers(q, 12 * q).map(lambda p: [p, q]))
    reals = st.floats(1.0, 20.0)
    opts = [ints, halves, rats, reals]
    if not lo_ge_1:
        opts += [st.sampled_from([[1, 2], [1, 3], [9, 10], [1, 20], [2, 3], [99, 100]]),
                 st.floats(0.05, 1.0)]
    return st.one_of(opts)


def interrupt_specs(kinds=("const", "const", "const", "fixed", "log", "geom"), rho_ge_1=False, ts=True,
                    max_x=200.0):
    ts_strat = st.one_of(
        st.none(), st.none(), st.none(), st.none(), st.none(), st.none(), st.none(), st.none(),
        st.sampled_from([[-3, 1], [-1, 2], [0, 1]]),
        st.integers(1, 30).map(lambda p: [p, 1]),
        st.integers(1, 60).map(lambda p: [p, 4]),
        st.integers(1, 99).map(lambda p: [p, 10]),
        st.floats(0.0, 30.0)) if ts else st.none()
    const = st.builds(lambda rho, ts, route: {"kind": "const", "rho": rho, "ts": ts,
                                              "route": "obj" if ts is not None else route},
                      rho_strategy(rho_ge_1), ts_strat, st.sampled_from(["num", "obj"]))
    point = st.one_of(st.integers(-3, 40).map(float), st.floats(-3.0, 40.0),
                      st.integers(-6, 400).map(lambda i: i / 2), st.floats(-3.0, max_x + 3))
    fixed = st.builds(
        lambda pts, dup, route: {"kind": "fixed",
                                 "rel": sorted(pts + ([pts[dup % len(pts)]] if dup is not None else [])),
                                 "route": route},
        st.lists(point, min_size=1, max_size=10), st.one_of(st.none(), st.integers(0, 9)),
        st.sampled_from(["list", "array", "obj"]))
    log = st.builds(lambda rho, f, ts: {"kind": "log", "rho": rho, "factor": f, "ts": ts},
                    st.one_of(st.floats(0.05, 20.0), st.sampled_from([1.0, 0.5, 2.5])),
                    st.one_of(st.sampled_from([1.0, 1.1, 1.5, 2.0]), st.floats(1.0, 3.0)), ts_strat)
    geom = st.builds(lambda s, f, route: {"kind": "geom", "scale_rel": s, "factor": f, "route": route},
                     st.one_of(st.floats(0.01, 50.0), st.sampled_from([1.0, 0.5, 10.0])),
                     st.one_of(st.sampled_from([1.1, 1.5, 2.0, 10.0]), st.floats(1.05, 10.0)),
                     st.sampled_from(["obj", "str"]))
    table = {"const": const, "fixed": fixed, "log": log, "geom": geom}
    return st.sampled_from(list(kinds)).flatmap(lambda k: table[k])


def rho_float(ispec):
    rho = ispec["rho"]
    return rho[0] / rho[1] if isinstance(rho, (list, tuple)) else float(rho)


def ts_float(ts):
    return ts[0] / ts[1] if isinstance(ts, (list, tuple)) else float(ts)


def build_interrupt(ispec, dt, t0):
    """The object/number/list a caller would pass as ``interrupts``."""
    kind = ispec["kind"]
    if kind == "const":
        d = rho_float(ispec) * dt
        if ispec["ts"] is not None:
            return ConstantInterrupts(d, t_start=t0 + ts_float(ispec["ts"]) * dt)
        if ispec["route"] == "num":
            return int(d) if d.is_integer() else d  # plain number, as in `tracker(interrupts=2)`
        return ConstantInterrupts(d)
    if kind == "fixed":
        pts = [t0 + x * dt for x in ispec["rel"]]
        pts = sorted(pts)
        if ispec["route"] == "list":
            return pts
        if ispec["route"] == "array":
            return np.array(pts)
        return FixedInterrupts(pts)
    if kind == "log":
        ts = None if ispec["ts"] is None else t0 + ts_float(ispec["ts"]) * dt
        return LogarithmicInterrupts(float(ispec["rho"]) * dt, float(ispec["factor"]), t_start=ts)
    if kind == "geom":
        scale, f = float(ispec["scale_rel"]) * dt, float(ispec["factor"])
        if ispec.get("route") == "str":
            return f"geometric({scale!r}, {f!r})"
        return GeometricInterrupts(scale, f)
    raise ValueError(kind)


def interrupt_label(ispec):
    kind = ispec["kind"]
    if kind == "const":
        r = frac(ispec["rho"])
        if r < 1:
            c = "rho<1"
        elif r.denominator == 1:
            c = "int"
        elif r.denominator == 2:
            c = "half"
        elif isinstance(ispec["rho"], (list, tuple)):
            c = "rational"
        else:
            c = "real"
        return f"const:{c}" + ("+ts" if ispec["ts"] is not None else "")
    return kind


def is_commensurate(ispec):
    """constant interval that is an integer multiple of dt starting on the step lattice"""
    if ispec["kind"] != "const":
        return False
    r = frac(ispec["rho"])
    ts = ispec["ts"]
    return r.denominator == 1 and (ts is None or frac(ts).denominator == 1)


# ======================================================================================
# recording trackers
# ======================================================================================
class Recorder:
    """What one tracker saw: [(t, data copy)], finalisation count, raised stops."""

    def __init__(self, idx, spec):
        self.idx = idx
        self.spec = spec
        self.calls = []  # (t, data copy)
        self.raised = []  # (t, type, msg)
        self.n_init = 0
        self.n_final = 0
        self.obj = None
        self.storage = None

    def see(self, field, t):
        """read-only observation; optional stop request"""
        k = len(self.calls)
        how = self.spec.get("func", "copy")
        if how == "stats":
            _ = {"mean": field.data.mean(), "var": field.data.var()}
        elif how == "laplace" and isinstance(field, pde.ScalarField):
            _ = field.laplace("periodic").data.sum()  # sets the ghost cells of the live state
        elif how == "integral":
            _ = field.integral if isinstance(field, pde.ScalarField) else field.integrals
        self.calls.append((float(t), np.array(field.data, copy=True)))
        stop = self.spec.get("stop")
        if stop is not None and k == stop["at"]:
            self.raised.append((float(t), stop["type"], stop["msg"]))
            exc = FinishedSimulation if stop["type"] == "finished" else StopIteration
            if stop["msg"]:
                raise exc(stop["msg"])
            raise exc

    def times(self):
        if self.storage is not None:
            return [float(t) for t in self.storage.times]
        return [c[0] for c in self.calls]

    def states(self):
        if self.storage is not None:
            return [np.array(d, copy=True) for d in self.storage.data]
        return [c[1] for c in self.calls]


class CustomTracker(TrackerBase):
    """A user-defined tracker (the documented way to write one)."""

    def __init__(self, rec, interrupts):
        super().__init__(interrupts=interrupts)
        self.rec = rec

    def handle(self, field, t):
        self.rec.see(field, t)


def _instrument(tracker, rec):
    orig_fin, orig_init = tracker.finalize, tracker.initialize

    def finalize(info=None):
        rec.n_final += 1
        return orig_fin(info=info)

    def initialize(field, info=None):
        rec.n_init += 1
        return orig_init(field, info)

    tracker.finalize = finalize
    tracker.initialize = initialize
    rec.obj = tracker
    return tracker


def _make_func(rec, nargs, ret):
    """callback with the documented signature (state) or (state, time)"""
    if nargs == 1:
        def func(field):
            rec.see(field, math.nan)
    elif ret:
        def func(field, t):
            rec.see(field, t)
            return {"v": float(np.real(field.data.flat[0]))}
    else:
        def func(field, t):
            rec.see(field, t)
    return func


PACKAGE_TRACKERS = ("walltime", "print", "consistency", "maxruntime")


def build_trackers(tspecs, dt, t0):
    """-> (list of tracker objects, list of Recorders)"""
    objs, recs = [], []
    prev_intr = None
    for i, ts in enumerate(tspecs):
        rec = Recorder(i, ts)
        intr = build_interrupt(ts["intr"], dt, t0)
        if ts.get("share") and i > 0 and isinstance(prev_intr, InterruptsBase) and tspecs[i - 1]["intr"] == ts["intr"]:
            intr = prev_intr  # the very same interrupt object handed to two trackers (documented: it is copied)
        prev_intr = intr
        kind = ts["kind"]
        if kind == "data":
            tr = DataTracker(_make_func(rec, 2, True), interrupts=intr)
        elif kind == "callback":
            tr = CallbackTracker(_make_func(rec, 2, False), interrupts=intr)
        elif kind == "callback1":
            # one-argument signature: the time is not passed; only used where times are not judged
            tr = CallbackTracker(_make_func(rec, 1, False), interrupts=intr)
        elif kind == "storage":
            rec.storage = pde.MemoryStorage()
            tr = rec.storage.tracker(interrupts=intr)
        elif kind == "custom":
            tr = CustomTracker(rec, intr)
        elif kind in PACKAGE_TRACKERS:
            # trackers of the package that take no callback (after missed seed C08-7: a tracker class that
            # overrides `initialize` dropped the start time): their `handle` is wrapped to record the calls
            import io

            from pde.trackers.trackers import ConsistencyTracker, MaxRuntimeTracker, PrintTracker, WalltimeTracker

            if kind == "walltime":
                tr = WalltimeTracker(interrupts=intr)
            elif kind == "print":
                tr = PrintTracker(interrupts=intr, stream=io.StringIO())
            elif kind == "consistency":
                tr = ConsistencyTracker(interrupts=intr)
            else:
                tr = MaxRuntimeTracker(max_runtime=1e6, interrupts=intr)
            orig_handle = tr.handle

            def handle(field, t, _orig=orig_handle, _rec=rec):
                _rec.see(field, t)
                return _orig(field, t)

            tr.handle = handle
        else:
            raise ValueError(kind)
        objs.append(_instrument(tr, rec))
        recs.append(rec)
    return objs, recs


def tracker_specs(kinds=("data", "callback", "storage", "custom"), intr=None, funcs=True):
    intr = intr if intr is not None else interrupt_specs()
    return st.builds(
        lambda kind, intr, func: {"kind": kind, "intr": intr, "func": func},
        st.sampled_from(list(kinds)), intr,
        st.sampled_from(["copy", "copy", "stats", "laplace", "integral"]) if funcs else st.just("copy"))


# ======================================================================================
# solvers / running
# ======================================================================================
def solver_specs(mode="nojit", names=FIXED_SOLVERS):
    backend = st.just("numba") if mode == "jit" else st.sampled_from(["numpy", "numba"])
    return st.builds(lambda n, b: {"name": n, "backend": b}, st.sampled_from(list(names)), backend)


def solver_kwargs(sspec):
    if sspec["name"] in ("implicit", "crank-nicolson"):
        return {"maxerror": MAXERROR, "maxiter": 2000}
    if sspec.get("adaptive"):
        return {"adaptive": True, "tolerance": float(sspec.get("tolerance", 1e-4))}
    return {}


def run_sim(case, trackers, state=None):
    """One call of ``eq.solve`` exactly as a user would write it."""
    dt, t0, t1, _ = times_of(case["time"])
    eq = SimEq(case["eq"], dt)
    if state is None:
        state = build_state(case["state"])
    s = case["solver"]
    # t_range may be given as a single number (= t_end, start at 0)
    t_range = t1 if case["time"].get("scalar") and t0 == 0 else (t0, t1)
    try:
        res, info = eq.solve(state, t_range=t_range, dt=dt, solver=s["name"], backend=s["backend"],
                             tracker=trackers, ret_info=True, **solver_kwargs(s))
    except ConvergenceError as err:  # documented failure mode of the fixed-point schemes
        raise Rejected(f"ConvergenceError: {err}") from err
    return res, info, state


# ======================================================================================
# reference maps (textbook)
# ======================================================================================
def lin_multiplier_power(name, z, n):
    """u_n / u_0 of the scheme applied to u' = (z/dt) u; AB2 with the documented start-up
    u_{-1} = u_0 - dt f(u_0)."""
    if name == "euler":
        return (1 + z) ** n
    if name == "runge-kutta":
        return (1 + z + z**2 / 2 + z**3 / 6 + z**4 / 24) ** n
    if name == "implicit":
        return (1 / (1 - z)) ** n
    if name == "crank-nicolson":
        return ((1 + z / 2) / (1 - z / 2)) ** n
    if name == "adams-bashforth":
        prev, cur = 1 - z, 1.0
        for _ in range(n):
            prev, cur = cur, cur + z * (1.5 * cur - 0.5 * prev)
        return cur
    raise ValueError(name)


def initial_array(sspec):
    """valid data of the initial state (collections: one row per field)"""
    if "data2" in sspec:
        return np.array([sspec["data"], sspec["data2"]], dtype=float)
    if "imag" in sspec:
        return np.array(sspec["data"], dtype=float) + 1j * np.array(sspec["imag"], dtype=float)
    return np.array(sspec["data"], dtype=float)


def lin_reference(case, n):
    """(reference data after n steps, absolute tolerance)"""
    eqs = case["eq"]
    z = complex(eqs["z"], eqs["zi"]) if eqs.get("zi") else eqs["z"]
    name = case["solver"]["name"]
    u0 = initial_array(case["state"])
    m = lin_multiplier_power(name, z, n)
    ref = m * u0
    scale = max(1.0, abs(m)) * max(1.0, float(np.abs(u0).max()))
    tol = (n + 1) * 1e-13 * scale
    if name in ("implicit", "crank-nicolson"):
        # fixed-point iterations stop at a mean-square change below MAXERROR
        tol += (n + 1) * 10 * math.sqrt(u0.size) * MAXERROR * scale
    return ref, tol


def step_reference(case, n, t0, dt):
    """n textbook steps of the harness' own rate function.

    euler / classical RK4 for every equation; backward Euler, Crank-Nicolson and AB2 (with the
    documented start-up u_{-1} = u_0 - dt f(u_0, t_0)) for the linear inhomogeneous equation
    u' = a u + g(t), where the implicit relations are solved in closed form."""
    eq = SimEq(case["eq"], dt)
    u = initial_array(case["state"])
    name = case["solver"]["name"]
    if name in ("implicit", "crank-nicolson", "adams-bashforth") and eq.kind != "nonauto":
        raise ValueError(name)
    z = case["eq"].get("z")

    def g(t):
        return eq.b * math.cos(eq.w * t + eq.phi)

    prev = None
    for i in range(n):
        t = t0 + i * dt
        if name == "euler":
            u = u + dt * eq.rate(u, t)
        elif name == "runge-kutta":
            k1 = dt * eq.rate(u, t)
            k2 = dt * eq.rate(u + 0.5 * k1, t + 0.5 * dt)
            k3 = dt * eq.rate(u + 0.5 * k2, t + 0.5 * dt)
            k4 = dt * eq.rate(u + k3, t + dt)
            u = u + (k1 + 2 * k2 + 2 * k3 + k4) / 6
        elif name == "implicit":
            u = (u + dt * g(t + dt)) / (1 - z)
        elif name == "crank-nicolson":
            u = (u * (1 + z / 2) + dt / 2 * (g(t) + g(t + dt))) / (1 - z / 2)
        elif name == "adams-bashforth":
            if prev is None:
                prev = u - dt * eq.rate(u, t)
            new = u + dt * (1.5 * eq.rate(u, t) - 0.5 * eq.rate(prev, t - dt))
            prev, u = u, new
        else:
            raise ValueError(name)
    return u


def time_jitter_tol(case, steps, segments, tmax, dt):
    """Effect of round-off *in the time argument* for the non-autonomous equation.

    A run cut into ``segments`` pieces evaluates the rate at t_seg + i*dt instead of
    t_start + i*dt: the two differ by at most (segments+2) ulp(tmax); the rate has
    |df/dt| <= |b w| and |1 + z| <= 1 (no amplification), so the states differ by at most
    steps*dt*|b w|*(segments+2)*ulp(tmax) (factor 4 of safety)."""
    eqs = case["eq"]
    if eqs["kind"] != "nonauto":
        return 0.0
    bw = abs(eqs["zb"] / dt * eqs["zw"] / dt)
    return 4.0 * steps * dt * bw * (segments + 2) * ulp(tmax)


# ======================================================================================
# exact schedule arithmetic (units of dt relative to t_start)
# ======================================================================================
def const_schedule(ispec):
    """(first, rho) as Fractions for a constant interval."""
    rho = frac(ispec["rho"])
    first = Fraction(0)
    if ispec["ts"] is not None:
        first = max(Fraction(0), frac(ispec["ts"]))
    return first, rho


def step_of(t, t0, dt, who="call"):
    """Integer n with t == t0 + n*dt up to round-off, or a Violation (not a simulation time)."""
    n = round((t - t0) / dt)
    back = t0 + n * dt
    tol = (abs(n) + 4) * 4 * max(ulp(t), ulp(t0), ulp(back))
    if abs(t - back) > tol:
        raise Violation(f"{who} time {t!r} is not t_start + n*dt (t_start={t0!r}, dt={dt!r}, nearest n={n}, "
                        f"off by {t - back:.3g}, tol {tol:.3g})", key="not-a-simulation-time")
    return n
