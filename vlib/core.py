"""Core data types: sub-checks, violations, canonical case handling.

Every sub-check is a pair (strategy -> JSON-able case, ``check(case)``).  ``check``
builds the py-pde objects from the plain-data case, runs the code under test, evaluates
the oracle and either raises :class:`Violation` or returns a record::

    {"nt": bool,            # non-trivial by the sub-check's stated rule
     "key": <json-able>,    # distinctness key (default: the whole case)
     "labels": [str, ...]}  # classification for the distribution statistics

Histories (stateful checks) are described by a :class:`History` subclass; the case of a
history is ``{"init": {...}, "ops": [[name, args], ...]}`` and is replayed without
Hypothesis.
"""

from __future__ import annotations

import hashlib
import json
import math
from dataclasses import dataclass, field
from typing import Any, Callable

import numpy as np


class Violation(Exception):
    """The property under test does not hold for the case."""

    def __init__(self, detail: str, key: str | None = None):
        super().__init__(detail)
        self.detail = detail
        self.key = key  # root-cause bucket / known-finding signature


class Rejected(Exception):
    """The code under test rejected the input with a documented validation error."""


class HarnessError(Exception):
    """Something is wrong with the harness itself (never reported as violation)."""


def _default(o):
    if isinstance(o, np.generic):
        return o.item()
    if isinstance(o, np.ndarray):
        return o.tolist()
    if isinstance(o, complex):
        return {"re": o.real, "im": o.imag}
    if isinstance(o, (set, frozenset)):
        return sorted(o)
    if isinstance(o, tuple):
        return list(o)
    raise TypeError(f"not JSON-able: {type(o)}")


def _sanitize(o):
    """Make floats JSON-safe (nan/inf -> strings), recursively."""
    if isinstance(o, float):
        if math.isnan(o):
            return "__nan__"
        if math.isinf(o):
            return "__inf__" if o > 0 else "__-inf__"
        return o
    if isinstance(o, complex):
        return {"re": _sanitize(o.real), "im": _sanitize(o.imag)}
    if isinstance(o, np.generic):
        return _sanitize(o.item())
    if isinstance(o, np.ndarray):
        return _sanitize(o.tolist())
    if isinstance(o, dict):
        return {str(k): _sanitize(v) for k, v in o.items()}
    if isinstance(o, (list, tuple)):
        return [_sanitize(v) for v in o]
    if isinstance(o, (set, frozenset)):
        return [_sanitize(v) for v in sorted(o)]
    return o


def _desanitize(o):
    if isinstance(o, str):
        if o == "__nan__":
            return float("nan")
        if o == "__inf__":
            return float("inf")
        if o == "__-inf__":
            return float("-inf")
        return o
    if isinstance(o, dict):
        if set(o) == {"re", "im"}:
            return complex(_desanitize(o["re"]), _desanitize(o["im"]))
        return {k: _desanitize(v) for k, v in o.items()}
    if isinstance(o, list):
        return [_desanitize(v) for v in o]
    return o


def dumps(case: Any, **kw) -> str:
    return json.dumps(_sanitize(case), sort_keys=True, default=_default, **kw)


def loads(text: str) -> Any:
    return _desanitize(json.loads(text))


def case_hash(obj: Any) -> str:
    return hashlib.sha1(dumps(obj).encode()).hexdigest()[:14]


def cnum(x):
    """Decode a number that may have been stored as {"re":..,"im":..}."""
    if isinstance(x, dict) and set(x) == {"re", "im"}:
        return complex(x["re"], x["im"])
    return x


@dataclass
class SubCheck:
    """One independently searched sub-check of a property."""

    name: str
    #: callable returning a Hypothesis strategy producing JSON-able cases
    strategy: Callable[[], Any] | None = None
    #: callable evaluating a case
    check: Callable[[Any], dict | None] | None = None
    #: History subclass for stateful sub-checks (strategy/check derived from it)
    history: type | None = None
    #: 'pure' (numba irrelevant), 'nojit' (NUMBA_DISABLE_JIT=1), 'jit' (real JIT)
    mode: str = "pure"
    #: total number of generated cases per tier (split over the shards)
    budget: dict = field(default_factory=lambda: {"quick": 200, "thorough": 2000})
    #: number of worker processes per tier
    shards: dict = field(default_factory=lambda: {"quick": 1, "thorough": 4})
    #: per-worker soft time limit (s); when exceeded remaining cases are skipped
    time_limit: dict = field(default_factory=lambda: {"quick": 150, "thorough": 1500})
    #: maximal number of steps of a history
    steps: dict = field(default_factory=lambda: {"quick": 30, "thorough": 50})
    #: maximal fraction of rejected inputs before the generator counts as broken
    max_reject: float = 0.2
    #: words describing the non-triviality rule (goes to the evidence file)
    rule: str = ""
    #: extra environment for the worker
    env: dict = field(default_factory=dict)
    #: numba threads for the worker
    threads: int = 1


class History:
    """Base class of stateful sub-checks.

    Subclasses define

    * ``init_strategy()`` (classmethod) -> strategy for the JSON-able ``init`` dict
    * ``__init__(self, init)``
    * ``OPS``: dict name -> callable(self) returning a strategy for the JSON-able
      argument dict of operation ``name`` (may depend on the current state), or
      ``None`` when the operation is currently not applicable
    * ``op_<name>(self, **args)``: apply to the real object and to the model
    * ``invariant(self)``: compare (called after every operation)
    * ``record(self)``: classification record at the end of the history
    * ``teardown(self)``
    """

    OPS: dict = {}

    @classmethod
    def init_strategy(cls):
        from hypothesis import strategies as st

        return st.just({})

    def __init__(self, init):
        self.init = init

    def invariant(self):
        pass

    def record(self) -> dict:
        return {"nt": True}

    def teardown(self):
        pass

    # -- replay without Hypothesis -------------------------------------------------
    @classmethod
    def replay(cls, case) -> dict:
        h = cls(case["init"])
        try:
            h.invariant()
            for name, args in case["ops"]:
                getattr(h, "op_" + name)(**args)
                h.invariant()
            return h.record()
        finally:
            h.teardown()
