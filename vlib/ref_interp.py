"""Independent multilinear interpolant / point-insertion reference (C16, reused by C19).

Everything here is written from the documentation of ``DataFieldBase.interpolate`` /
``insert`` and works on the plain-data grid spec of :mod:`vlib.gen_grids` (no py-pde
objects, no code shared with ``pde.backends.numba.grids``):

* cells are centred at ``lo + (i + 1/2) dx``; the *cell coordinate* of a position is
  ``xc = (x - lo)/dx - 1/2`` (cell ``i`` has ``xc == i``)
* bulk: the two neighbouring cells per axis with weights ``1 - frac`` and ``frac``; the result
  is the tensor product over the axes (2^d cells)
* periodic axis: indices wrap around, any real coordinate is admissible
* non-periodic axis *without* boundary conditions: positions in the half cell next to a
  face take the value of the nearest cell along that axis; positions beyond the face are outside
* non-periodic axis *with* boundary conditions: the ghost cell takes part, i.e. the padded
  array is interpolated linearly all the way to the face
* inserting ``amount`` at a point adds ``w * amount / V_cell`` to each supporting cell (weights
  of cells that do not exist are redistributed, i.e. the weights are renormalised)
"""

from __future__ import annotations

import itertools
import math

import numpy as np

from .gen_grids import axes_bounds

EPS = float(np.finfo(float).eps)
#: distance (in cells) from a membership switch (domain face) below which a point is not judged
GUARD = 1e-9
#: distance (in cells) from a cell centre below which ``floor`` may fall on either side, and from
#: the strip/bulk switch of an axis without boundary conditions (= the centre of the first/last
#: cell) below which either branch may have been taken; the interpolant is continuous there, so
#: the two candidates differ by at most this distance times the difference of the cells
EDGE = 1e-12


def axis_geometry(gspec):
    """list of (lo, hi, n, dx, periodic) per grid axis, from the spec only"""
    out = []
    for (lo, hi), n, per in zip(axes_bounds(gspec), gspec["shape"], gspec["periodic"]):
        out.append((float(lo), float(hi), int(n), (float(hi) - float(lo)) / int(n), bool(per)))
    return out


def centres(gspec, axis):
    lo, hi, n, dx, per = axis_geometry(gspec)[axis]
    return lo + (np.arange(n) + 0.5) * dx


def cell_coordinate(x, lo, dx):
    return (float(x) - lo) / dx - 0.5


def coordinate_from_cell(xc, lo, dx):
    return lo + (xc + 0.5) * dx


def position_resolution(x, xc, lo, dx):
    """accuracy (in cells) to which a floating-point coordinate determines the cell coordinate:
    rounding of ``(x - lo)/dx - 1/2`` in any algebraically equivalent form (compiled code may
    reassociate), i.e. eps * (|x| + |lo|)/dx + eps * (1 + |xc|)"""
    return EPS * ((abs(x) + abs(lo)) / dx + 1.0 + abs(xc))


def classify_axis(xc, n, periodic, ghost, res=0.0):
    """Region class of a cell coordinate along one axis.

    Returns one of ``centre, bulk, strip, seam, shifted, outside, ambiguous``
    (``ambiguous``: within the guard distance of a non-periodic domain face, where membership
    switches).  ``res``: position resolution in cells (widens the guards)."""
    guard = max(GUARD, 64 * res)
    edge = max(EDGE, 64 * res)
    if periodic:
        if xc < -0.5 - guard or xc > n - 0.5 + guard:
            return "shifted"
        if xc < -edge or xc > n - 1 + edge:
            return "seam"
    else:
        for sw in (-0.5, n - 0.5):
            if abs(xc - sw) < guard * max(1.0, abs(sw)):
                return "ambiguous"
        if xc < -0.5 or xc > n - 0.5:
            return "outside"
        if not ghost:
            for sw in (0.0, n - 1.0):
                if abs(xc - sw) < edge:
                    return "centre"  # centre of the first/last cell
        if xc < 0 or xc > n - 1:
            return "strip"
    if abs(xc - round(xc)) < max(GUARD, edge):
        return "centre"
    return "bulk"


def axis_support(xc, n, periodic, ghost):
    """Supporting cells along one axis: ``[(index, weight), (index, weight)]`` with indices
    into the valid cells (-1 and n denote the ghost cells, only returned when ``ghost``),
    or ``None`` when the position is outside."""
    if periodic:
        fl = math.floor(xc)
        frac = xc - fl
        i = int(fl) % n
        return [(i, 1.0 - frac), ((i + 1) % n, frac)]
    if xc < -0.5 or xc > n - 0.5:
        return None
    if not ghost:
        if xc <= 0:
            return [(0, 1.0), (0, 0.0)]
        if xc >= n - 1:
            return [(n - 1, 1.0), (n - 1, 0.0)]
    fl = math.floor(xc)
    frac = xc - fl
    return [(int(fl), 1.0 - frac), (int(fl) + 1, frac)]


def axis_bound_cells(xc, n, periodic, ghost, support, edge):
    """cells whose magnitude enters the position-conditioning term of the bound: the supporting
    cells plus, when the position is within ``edge`` of a cell centre (where floor() may fall on
    either side), the neighbours on both sides"""
    cells = {i for i, _ in support}
    r = round(xc)
    if abs(xc - r) < edge:
        cells.update((int(r) - 1, int(r), int(r) + 1))
    if periodic:
        return sorted({i % n for i in cells})
    lo, hi = (-1, n) if ghost else (0, n - 1)
    return sorted({i for i in cells if lo <= i <= hi})


class PointInfo:
    """classification + support of one point"""

    def __init__(self, gspec, point, ghost):
        self.geo = axis_geometry(gspec)
        self.point = [float(x) for x in point]
        self.xc = [cell_coordinate(x, g[0], g[3]) for x, g in zip(point, self.geo)]
        #: position resolution in cells per axis
        self.res = [position_resolution(x, xc, g[0], g[3])
                    for x, xc, g in zip(self.point, self.xc, self.geo)]
        self.edge = [max(EDGE, 64 * r) for r in self.res]
        self.classes = [classify_axis(xc, g[2], g[4], ghost, r)
                        for xc, g, r in zip(self.xc, self.geo, self.res)]
        self.support = [axis_support(xc, g[2], g[4], ghost) for xc, g in zip(self.xc, self.geo)]
        self.ghost = ghost

    @property
    def ambiguous(self):
        return "ambiguous" in self.classes

    @property
    def outside(self):
        return "outside" in self.classes

    @property
    def region(self):
        """region class of the point: the 'worst' class over the axes (+corner)"""
        cl = self.classes
        if "ambiguous" in cl:
            return "ambiguous"
        if "outside" in cl:
            return "outside"
        if sum(c == "strip" for c in cl) >= 2:
            return "corner"
        for name in ("strip", "shifted", "seam", "bulk"):
            if name in cl:
                return name
        return "centre"


def interpolate(gspec, data, point, ghost=False, unc=None):
    """Reference value at one point.

    ``data``: valid data (``ghost=False``) or the padded array (``ghost=True``), leading
    axes = tensor components.  ``unc`` (optional, shape of ``data``): absolute uncertainty of
    the entries of ``data`` (ghost cells whose defining condition is ill-conditioned).

    Returns ``(value, bound, info)``; ``bound`` is the condition-aware tolerance::

        32 eps sum |w||u|  +  16 sum_axes(position resolution) * sum_{neighbours} |u|  +  sum |w| unc

    or ``(None, None, info)`` when the point is outside / ambiguous."""
    info = PointInfo(gspec, point, ghost)
    if info.ambiguous or info.outside:
        return None, None, info
    nax = len(info.geo)
    comp_shape = data.shape[: data.ndim - nax]
    val = np.zeros(comp_shape, dtype=np.result_type(data.dtype, float))
    wsum = np.zeros(comp_shape)
    usum = np.zeros(comp_shape)
    extra = np.zeros(comp_shape)
    off = 1 if ghost else 0
    for combo in itertools.product((0, 1), repeat=nax):
        w = 1.0
        idx = []
        for a, c in enumerate(combo):
            i, wa = info.support[a][c]
            w *= wa
            idx.append(i + off)
        u = data[(Ellipsis, *idx)]
        if w != 0.0:
            val = val + w * u
            wsum = wsum + abs(w) * np.abs(u)
            if unc is not None:
                extra = extra + abs(w) * unc[(Ellipsis, *idx)]
    cand = [axis_bound_cells(xc, g[2], g[4], ghost, sup, e)
            for xc, g, sup, e in zip(info.xc, info.geo, info.support, info.edge)]
    for idx in itertools.product(*cand):
        usum = usum + np.abs(data[(Ellipsis, *[i + off for i in idx])])
    bound = 32 * EPS * wsum + 16 * sum(info.res) * usum + extra + 1e-300
    if not ghost:
        for xc, g, e in zip(info.xc, info.geo, info.edge):
            if not g[4] and g[2] > 1 and min(abs(xc), abs(xc - (g[2] - 1))) < e:
                # either branch may be taken at the switch: they differ by < e * |cell difference|
                axes = tuple(range(data.ndim - nax, data.ndim))
                bound = bound + 4 * e * np.max(np.abs(data), axis=axes)
                break
    return val, bound, info


def set_corners(padded, nax):
    """Documented corner rule of ``set_ghost_cells(..., set_corners=True)``: "corner cells are
    set using interpolation" - every ghost cell that is a ghost cell along two (three) axes
    becomes the mean of its two (three) neighbours that are ghost cells along one axis less."""
    d = padded
    nxt = {0: 1, -1: -2}
    if nax == 2:
        for i, j in itertools.product((0, -1), repeat=2):
            d[..., i, j] = (d[..., nxt[i], j] + d[..., i, nxt[j]]) / 2
    elif nax == 3:
        for i, j in itertools.product((0, -1), repeat=2):
            d[..., 1:-1, i, j] = (d[..., 1:-1, nxt[i], j] + d[..., 1:-1, i, nxt[j]]) / 2
            d[..., i, 1:-1, j] = (d[..., nxt[i], 1:-1, j] + d[..., i, 1:-1, nxt[j]]) / 2
            d[..., i, j, 1:-1] = (d[..., nxt[i], j, 1:-1] + d[..., i, nxt[j], 1:-1]) / 2
        for i, j, k in itertools.product((0, -1), repeat=3):
            d[..., i, j, k] = (d[..., nxt[i], j, k] + d[..., i, nxt[j], k] + d[..., i, j, nxt[k]]) / 3
    return d


# ---------------------------------------------------------------------------------------
# exact cell volumes and insertion
# ---------------------------------------------------------------------------------------
def cell_volumes(gspec):
    """exact volumes of all cells, shape = grid shape (from the geometry, not from py-pde;
    written in the factored, well-conditioned form)"""
    geo = axis_geometry(gspec)
    cls = gspec["cls"]
    if cls in ("unit", "cart"):
        v = np.ones(())
        for lo, hi, n, dx, per in geo:
            v = np.multiply.outer(v, np.full(n, dx))
        return np.asarray(v)
    lo, hi, n, dr, _ = geo[0]
    edges = lo + np.arange(n + 1) * dr
    ri_, ro = edges[:-1], edges[1:]
    if cls == "polar":
        return math.pi * dr * (ro + ri_)
    if cls == "sph":
        return 4 * math.pi / 3 * dr * (ro * ro + ro * ri_ + ri_ * ri_)
    if cls == "cyl":
        ring = math.pi * dr * (ro + ri_)
        return np.multiply.outer(ring, np.full(geo[1][2], geo[1][3]))
    raise ValueError(cls)


def cell_volume_conditioning(gspec):
    """relative accuracy to which a cell volume is defined in double precision when it is
    evaluated as the documented difference V(r_outer) - V(r_inner) of ball volumes (polar and
    spherical grids): eps * r/dr per cell; plain rounding otherwise.  Shape = grid shape."""
    geo = axis_geometry(gspec)
    shape = tuple(g[2] for g in geo)
    if gspec["cls"] in ("polar", "sph"):
        lo, hi, n, dr, _ = geo[0]
        ro = lo + (np.arange(n) + 1) * dr
        return 8 * EPS * (1 + ro / dr)
    return np.full(shape, 8 * EPS)


def integral(gspec, data):
    """volume-weighted sum over the grid axes (tensor components are kept)"""
    vol = cell_volumes(gspec)
    nax = len(gspec["shape"])
    return np.sum(data * vol, axis=tuple(range(data.ndim - nax, data.ndim)))


def insertion_delta(gspec, point, amount, comp_shape):
    """Reference change of the valid data when ``amount`` is inserted at ``point``.

    Returns ``(delta, touched_mask, info)``; ``delta`` has shape comp_shape + grid shape.
    Cells beyond a non-periodic face do not exist; their weight is redistributed."""
    info = PointInfo(gspec, point, ghost=True)  # plain two-cell support incl. virtual cells
    geo = info.geo
    nax = len(geo)
    shape = tuple(g[2] for g in geo)
    vol = cell_volumes(gspec)
    amount = np.broadcast_to(np.asarray(amount), comp_shape)
    delta = np.zeros(comp_shape + shape, dtype=np.result_type(amount.dtype, float))
    touched = np.zeros(shape, bool)
    if info.outside or info.ambiguous:
        return None, None, info
    cells = []
    total = 0.0
    for combo in itertools.product((0, 1), repeat=nax):
        w = 1.0
        idx = []
        ok = True
        for a, c in enumerate(combo):
            i, wa = info.support[a][c]
            if i < 0 or i >= shape[a]:
                ok = False
            w *= wa
            idx.append(i)
        if ok:
            cells.append((tuple(idx), w))
            total += w
    for idx, w in cells:
        delta[(Ellipsis, *idx)] += (w / total) * amount / vol[idx]
        touched[idx] = True
    return delta, touched, info


def neighbour_mask(gspec, info):
    """cells that may legitimately change when inserting at the point: the 2^d neighbours
    (for positions within GUARD of a cell centre both candidate pairs are admitted)"""
    geo = info.geo
    shape = tuple(g[2] for g in geo)
    mask = np.ones(shape, bool)
    for a, (xc, g) in enumerate(zip(info.xc, geo)):
        n, per = g[2], g[4]
        cand = set()
        for x in (xc - max(GUARD, info.edge[a]), xc + max(GUARD, info.edge[a])):
            fl = int(math.floor(x))
            cand.update((fl, fl + 1))
        if per:
            cand = {i % n for i in cand}
        else:
            cand = {i for i in cand if 0 <= i < n}
        line = np.zeros(n, bool)
        line[sorted(cand)] = True
        mask &= line.reshape([-1 if i == a else 1 for i in range(len(shape))])
    return mask
