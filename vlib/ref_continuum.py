"""Continuum oracle for property C01, part (b): convergence to the continuum operator.

The oracle shares no formula with py-pde.  A test field is defined directly in the
*Cartesian embedding* of the grid as a vectorised callable ``F(X)`` that returns Cartesian
components, built from rotation-invariant ingredients (``x``, ``Jx``, ``e_z``, the identity,
profiles that depend on ``r^2`` and ``z`` only) so that it is smooth everywhere and has the
symmetry of the grid by construction:

* scalars   ``s = p(r^2, z)``;
* vectors   polar/cylindrical ``v = a x + b Jx + c e_z``  (=> v_r = a r, v_phi = b r, v_z = c);
            spherical ``v = a x``;
* tensors   polar ``T = alpha I + gamma J + beta x(x)x + delta x(x)Jx + eps Jx(x)x``;
            cylindrical: the same in-plane block plus ``mu x(x)e_z + nu e_z(x)x +
            rho Jx(x)e_z + sigma e_z(x)Jx + tau e_z(x)e_z``;
            spherical ``T = alpha I + beta x(x)x + gamma [eps_ijk x_k]``.

The continuum operator is evaluated in Cartesian components, where every operator has an
unambiguous definition,

    (grad s)_i = d_i s           lap s = sum_j d_j d_j s         |grad s|^2
    div v = sum_i d_i v_i        (grad v)_{ij} = d_j v_i         (lap v)_i = sum_j d_j d_j v_i
    (div T)_i = sum_j d_j T_{ij}                                 div div T = sum_ij d_i d_j T_{ij}

by 6th-order central finite differences of the callable (step ~5e-3 of the length scale of
the field, i.e. independent of and much finer than any grid under test), and projected on
*my own* orthonormal basis at the cell centres: polar cells are embedded at ``(r, 0)`` with
``(e_r, e_phi) = (e_x, e_y)``, cylinder cells at ``(r, 0, z)`` with ``(e_r, e_z, e_phi) =
(e_x, e_z, e_y)``, spherical cells at ``(r, 0, 0)`` (theta = pi/2, phi = 0) with
``(e_r, e_theta, e_phi) = (e_x, -e_z, e_y)``.  Ghost cells are sampled with the same
formulas; at a hole-free inner boundary the ghost cell sits at ``r = -dr/2`` and the
formulas give the smooth continuation (components ``a*r`` are odd, scalars even).
"""

from __future__ import annotations

import numpy as np

# 6th-order central difference weights
_C1 = ((1, 3.0 / 4.0), (2, -3.0 / 20.0), (3, 1.0 / 60.0))
_C2_0 = -49.0 / 18.0
_C2 = ((1, 3.0 / 2.0), (2, -3.0 / 20.0), (3, 1.0 / 90.0))


def _shift(X, j, d):
    Y = X.copy()
    Y[j] = Y[j] + d
    return Y


def dF(F, X, j, h):
    """d F / d x_j at the points X (shape (D, ...)) by 6th-order central differences"""
    res = 0.0
    for k, w in _C1:
        res = res + w * (F(_shift(X, j, k * h[j])) - F(_shift(X, j, -k * h[j])))
    return res / h[j]


def d2F(F, X, j, h):
    """d^2 F / d x_j^2 by 6th-order central differences"""
    res = _C2_0 * F(X)
    for k, w in _C2:
        res = res + w * (F(_shift(X, j, k * h[j])) + F(_shift(X, j, -k * h[j])))
    return res / h[j] ** 2


# ----------------------------------------------------------------------------------------
# embeddings: basis of the curvilinear components as (cartesian index, sign)
# ----------------------------------------------------------------------------------------
BASIS = {
    "polar": ((0, 1.0), (1, 1.0)),  # (r, phi) at (r, 0)
    "sph": ((0, 1.0), (2, -1.0), (1, 1.0)),  # (r, theta, phi) at (r, 0, 0)
    "cyl": ((0, 1.0), (2, 1.0), (1, 1.0)),  # (r, z, phi) at (r, 0, z)
}
#: cartesian direction of the grid axes at the embedded cells
AXIS_DIR = {"polar": {"r": 0}, "sph": {"r": 0}, "cyl": {"r": 0, "z": 2},
            "cart": {"x": 0, "y": 1, "z": 2}}


def embed(fam, coords):
    """Cartesian points X (shape (D, *grid shape)) of cells with the given axis coordinates"""
    if fam == "cart":
        return np.array(np.meshgrid(*coords, indexing="ij"))
    r = np.asarray(coords[0], dtype=float)
    if fam == "polar":
        return np.array([r, np.zeros_like(r)])
    if fam == "sph":
        return np.array([r, np.zeros_like(r), np.zeros_like(r)])
    if fam == "cyl":
        rr, zz = np.meshgrid(r, np.asarray(coords[1], dtype=float), indexing="ij")
        return np.array([rr, np.zeros_like(rr), zz])
    raise ValueError(fam)


def project(fam, comps, rank):
    """curvilinear components (my basis) from Cartesian components (first ``rank`` axes)"""
    if fam == "cart" or rank == 0:
        return comps
    basis = BASIS[fam]
    dim = len(basis)
    out = np.empty((dim,) * rank + comps.shape[rank:], dtype=comps.dtype)
    for idx in np.ndindex(*(dim,) * rank):
        sign = 1.0
        src = []
        for a in idx:
            src.append(basis[a][0])
            sign *= basis[a][1]
        out[idx] = sign * comps[tuple(src)]
    return out


# ----------------------------------------------------------------------------------------
# fields
# ----------------------------------------------------------------------------------------
class Profile:
    """p(q, zeta) = poly(q, zeta) exp(-k q) cos(w zeta + phi) [ (1 + s r_in / r) ]"""

    def __init__(self, rng, has_z, singular):
        c = rng.uniform(-1, 1, size=6)
        c[0] += np.sign(c[0]) * 0.5 if c[0] != 0 else 0.5
        if not has_z:
            c[3:] = 0
        self.c = c
        self.k = rng.uniform(0, 1.5)
        self.w = rng.uniform(0, 2.5) if has_z else 0.0
        self.phi = rng.uniform(0, 2 * np.pi) if has_z else 0.0
        self.s = rng.uniform(0.2, 1.0) if (singular and rng.random() < 0.5) else 0.0

    def __call__(self, q, zeta, rho):
        c = self.c
        val = (c[0] + c[1] * q + c[2] * q * q + zeta * (c[3] + c[4] * q) + c[5] * zeta * zeta)
        val = val * np.exp(-self.k * q) * np.cos(self.w * zeta + self.phi)
        if self.s:
            val = val * (1.0 + self.s / rho)
        return val


class SymField:
    """Rotation-invariant field on the embedding of a polar / spherical / cylindrical grid."""

    NPROF = {("polar", 0): 1, ("polar", 1): 2, ("polar", 2): 5,
             ("sph", 0): 1, ("sph", 1): 1, ("sph", 2): 3,
             ("cyl", 0): 1, ("cyl", 1): 3, ("cyl", 2): 10}

    def __init__(self, fam, rank, r_in, r_out, z_lo, z_hi, seed, singular=False):
        self.fam, self.rank = fam, rank
        self.r_in, self.r_out = float(r_in), float(r_out)
        self.z_lo = float(z_lo) if z_lo is not None else 0.0
        self.lz = float(z_hi - z_lo) if z_lo is not None else 1.0
        rng = np.random.default_rng(int(seed))
        has_z = fam == "cyl"
        self.p = [Profile(rng, has_z, singular and r_in > 0) for _ in range(self.NPROF[fam, rank])]
        self.D = 2 if fam == "polar" else 3
        width = self.r_out - self.r_in
        self.length = [width] * self.D
        if fam == "cyl":
            self.length[2] = self.lz
        #: finite-difference steps of the oracle per Cartesian direction
        self.h = [5e-3 * ell for ell in self.length]

    def _invariants(self, X):
        if self.fam == "cyl":
            r2 = X[0] ** 2 + X[1] ** 2
            zeta = (X[2] - self.z_lo) / self.lz
        else:
            r2 = sum(X[i] ** 2 for i in range(self.D))
            zeta = 0.0
        q = (r2 - self.r_in**2) / (self.r_out**2 - self.r_in**2)
        rho = np.sqrt(r2) / self.r_in if self.r_in > 0 else None
        return q, zeta, rho

    def __call__(self, X):
        q, zeta, rho = self._invariants(X)
        P = [p(q, zeta, rho) for p in self.p]
        if self.rank == 0:
            return P[0]
        L = self.r_out
        zero = np.zeros_like(X[0])
        one = np.ones_like(X[0])
        if self.fam == "sph":
            x = [X[0] / L, X[1] / L, X[2] / L]
            if self.rank == 1:
                return np.array([P[0] * xi for xi in x])
            al, be, ga = P
            T = [[be * x[i] * x[j] for j in range(3)] for i in range(3)]
            for i in range(3):
                T[i][i] = T[i][i] + al
            # antisymmetric isotropic part  gamma * eps_ijk x_k
            for i, j, k in ((0, 1, 2), (1, 2, 0), (2, 0, 1)):
                T[i][j] = T[i][j] + ga * x[k]
                T[j][i] = T[j][i] - ga * x[k]
            return np.array(T)
        # polar / cylindrical: in-plane vectors x and Jx (rotation by 90 degrees)
        if self.D == 2:
            x = [X[0] / L, X[1] / L]
            Jx = [-X[1] / L, X[0] / L]
        else:
            x = [X[0] / L, X[1] / L, zero]
            Jx = [-X[1] / L, X[0] / L, zero]
            ez = [zero, zero, one]
        D = self.D
        if self.rank == 1:
            v = [P[0] * x[i] + P[1] * Jx[i] for i in range(D)]
            if D == 3:
                v = [v[i] + P[2] * ez[i] for i in range(3)]
            return np.array(v)
        al, ga, be, de, ep = P[:5]
        T = [[be * x[i] * x[j] + de * x[i] * Jx[j] + ep * Jx[i] * x[j] for j in range(D)]
             for i in range(D)]
        T[0][0] = T[0][0] + al
        T[1][1] = T[1][1] + al
        T[0][1] = T[0][1] - ga  # J = [[0, -1], [1, 0]]
        T[1][0] = T[1][0] + ga
        if D == 3:
            mu, nu, rh, si, ta = P[5:]
            for i in range(3):
                for j in range(3):
                    T[i][j] = (T[i][j] + mu * x[i] * ez[j] + nu * ez[i] * x[j]
                               + rh * Jx[i] * ez[j] + si * ez[i] * Jx[j] + ta * ez[i] * ez[j])
        return np.array(T)


class CartField:
    """Generic smooth field on a d-dimensional box (no symmetry)."""

    def __init__(self, dim, rank, bounds, seed):
        self.fam, self.rank, self.D = "cart", rank, dim
        self.lo = np.array([b[0] for b in bounds], dtype=float)
        self.length = [float(b[1] - b[0]) for b in bounds]
        self.h = [5e-3 * ell for ell in self.length]
        rng = np.random.default_rng(int(seed))
        n = dim**rank
        self.a = rng.uniform(-1, 1, size=(n, 3))
        self.w = rng.uniform(-2.5, 2.5, size=(n, 3, dim))
        self.ph = rng.uniform(0, 2 * np.pi, size=(n, 3))
        self.Q = rng.uniform(-1, 1, size=(n, dim, dim))
        self.b = rng.uniform(-1, 1, size=(n, dim))

    def _scalar(self, m, xi):
        val = 0.0
        for k in range(3):
            arg = sum(self.w[m, k, i] * xi[i] for i in range(self.D)) + self.ph[m, k]
            val = val + self.a[m, k] * np.sin(arg)
        quad = sum(self.Q[m, i, j] * xi[i] * xi[j] for i in range(self.D) for j in range(self.D))
        lin = sum(self.b[m, i] * xi[i] for i in range(self.D))
        return val + (quad + lin) * np.exp(-0.5 * sum(x * x for x in xi))

    def __call__(self, X):
        xi = [(X[i] - self.lo[i]) / self.length[i] for i in range(self.D)]
        if self.rank == 0:
            return self._scalar(0, xi)
        comps = [self._scalar(m, xi) for m in range(self.D**self.rank)]
        return np.array(comps).reshape((self.D,) * self.rank + X.shape[1:])


# ----------------------------------------------------------------------------------------
# continuum operators in Cartesian components
# ----------------------------------------------------------------------------------------
#: operator -> (rank_in, rank_out, differentiation order)
OPERATORS = {
    "laplace": (0, 0, 2), "gradient": (0, 1, 1), "gradient_squared": (0, 0, 1),
    "divergence": (1, 0, 1), "vector_gradient": (1, 2, 1), "vector_laplace": (1, 1, 2),
    "tensor_divergence": (2, 1, 1), "tensor_double_divergence": (2, 0, 2),
}


def continuum_cartesian(F, op, X, axis_dir=None):
    """value of the continuum operator ``op`` of the field F at the points X (Cartesian comps)

    ``axis_dir``: Cartesian direction for the single-axis derivatives ``d1``/``d2``.
    """
    D, h = F.D, F.h
    if op == "d1":
        return dF(F, X, axis_dir, h)
    if op == "d2":
        return d2F(F, X, axis_dir, h)
    if op == "gradient":
        return np.array([dF(F, X, i, h) for i in range(D)])
    if op == "gradient_squared":
        return sum(dF(F, X, i, h) ** 2 for i in range(D))
    if op == "laplace":
        return sum(d2F(F, X, j, h) for j in range(D))
    if op == "divergence":
        return sum(dF(F, X, i, h)[i] for i in range(D))
    if op == "vector_gradient":  # G[i, j] = d_j v_i
        derivs = [dF(F, X, j, h) for j in range(D)]
        return np.array([[derivs[j][i] for j in range(D)] for i in range(D)])
    if op == "vector_laplace":
        return sum(d2F(F, X, j, h) for j in range(D))
    if op == "tensor_divergence":  # w_i = sum_j d_j T_ij
        derivs = [dF(F, X, j, h) for j in range(D)]
        return np.array([sum(derivs[j][i, j] for j in range(D)) for i in range(D)])
    if op == "tensor_double_divergence":  # sum_i d_i (sum_j d_j T_ij)
        def wfun(Y):
            return continuum_cartesian(F, "tensor_divergence", Y)

        return sum(dF(wfun, X, i, h)[i] for i in range(D))
    raise KeyError(op)


def sample(F, fam, coords):
    """components of F in my curvilinear basis at the cells with the given axis coordinates"""
    return project(fam, F(embed(fam, coords)), F.rank)


def exact(F, fam, op, coords, axis=None):
    """continuum operator of F in my curvilinear basis at the cells ``coords``

    ``op`` is a key of OPERATORS or 'd1'/'d2' together with the grid-axis name ``axis``.
    """
    X = embed(fam, coords)
    if op in ("d1", "d2"):
        return continuum_cartesian(F, op, X, AXIS_DIR[fam][axis])
    rank_out = OPERATORS[op][1]
    return project(fam, continuum_cartesian(F, op, X), rank_out)
