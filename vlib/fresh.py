"""Fork server giving "the same call in a fresh interpreter" (oracle of C04).

A *zygote* process imports ``pde`` and the check module and then never evaluates anything
itself.  On request it forks

* a **fresh child** that evaluates one request in a process state identical to a new
  interpreter after ``import pde`` and exits, or
* a **history child** that lives for one history and evaluates its requests one after the
  other (so the history runs isolated from every other history: the backend singletons and
  method caches live for the whole process).

Protocol (length-prefixed pickles on stdin/stdout of the zygote)::

    ("fresh", payload)          -> ("ok", result) | ("err", text)
    ("hstart", None)            -> ("ok", None)
    ("hstep", payload)          -> ("ok", result) | ("err", text)
    ("hend", None)              -> ("ok", None)
    ("quit", None)

``payload`` is handed to ``<module>.evaluate(payload, store)`` where ``store`` is a dict that
persists inside a history child (live objects) and is empty in a fresh child.
"""

from __future__ import annotations

import importlib
import os
import pickle
import struct
import subprocess
import sys
import threading
import traceback


def _send(f, obj):
    data = pickle.dumps(obj, protocol=pickle.HIGHEST_PROTOCOL)
    f.write(struct.pack("<Q", len(data)))
    f.write(data)
    f.flush()


def _recv(f):
    head = f.read(8)
    if len(head) < 8:
        raise EOFError
    (n,) = struct.unpack("<Q", head)
    data = f.read(n)
    if len(data) < n:
        raise EOFError
    return pickle.loads(data)


def _evaluate(mod, payload, store):
    try:
        return ("ok", mod.evaluate(payload, store))
    except BaseException as e:  # noqa: BLE001
        return ("err", {"type": type(e).__name__, "text": str(e)[:500],
                        "tb": traceback.format_exc()[-2000:]})


def zygote_main(module_name):
    from . import env

    env.setup()
    import pde  # noqa: F401

    # Load (but do not use) everything py-pde imports lazily on first use, so that a fresh
    # child does not pay seconds of import time per request.  No py-pde function that keeps
    # state is evaluated: the backend singletons are created with empty caches, exactly as
    # the first request of a new interpreter would find them after its own lazy imports.
    import numba  # noqa: F401
    import numba.typed  # noqa: F401
    import scipy.ndimage  # noqa: F401
    import scipy.sparse  # noqa: F401
    import scipy.sparse.linalg  # noqa: F401
    import sympy
    from sympy.parsing import sympy_parser  # noqa: F401

    sympy.simplify(sympy.parse_expr("sin(x)**2 + y*(x + 1) - 2"))  # sympy-internal warm-up only
    import pde.tools.expressions  # noqa: F401
    from pde.backends import get_backend

    for name in ("numpy", "scipy", "numba"):
        get_backend(name)

    mod = importlib.import_module(module_name)
    if threading.active_count() != 1:
        sys.stderr.write("zygote: importing pde started threads; fork is unsafe\n")
        sys.exit(3)
    inp = sys.stdin.buffer
    out = sys.stdout.buffer
    hist = None  # (pid, to_child, from_child)
    _send(out, ("ready", None))
    while True:
        try:
            cmd, payload = _recv(inp)
        except EOFError:
            break
        if cmd == "quit":
            break
        if cmd == "fresh":
            r, w = os.pipe()
            pid = os.fork()
            if pid == 0:  # fresh child
                os.close(r)
                with os.fdopen(w, "wb") as fw:
                    _send(fw, _evaluate(mod, payload, {}))
                os._exit(0)
            os.close(w)
            with os.fdopen(r, "rb") as fr:
                try:
                    res = _recv(fr)
                except EOFError:
                    res = ("err", {"type": "ChildDied", "text": "fresh child died", "tb": ""})
            os.waitpid(pid, 0)
            _send(out, res)
        elif cmd == "hstart":
            if hist is not None:
                _end_history(hist)
            r1, w1 = os.pipe()  # zygote -> child
            r2, w2 = os.pipe()  # child -> zygote
            pid = os.fork()
            if pid == 0:
                os.close(w1)
                os.close(r2)
                fin, fout = os.fdopen(r1, "rb"), os.fdopen(w2, "wb")
                store = {}
                while True:
                    try:
                        c, p = _recv(fin)
                    except EOFError:
                        break
                    if c == "end":
                        break
                    _send(fout, _evaluate(mod, p, store))
                os._exit(0)
            os.close(r1)
            os.close(w2)
            hist = (pid, os.fdopen(w1, "wb"), os.fdopen(r2, "rb"))
            _send(out, ("ok", None))
        elif cmd == "hstep":
            if hist is None:
                _send(out, ("err", {"type": "Protocol", "text": "no history", "tb": ""}))
                continue
            try:
                _send(hist[1], ("step", payload))
                res = _recv(hist[2])
            except (EOFError, BrokenPipeError):
                res = ("err", {"type": "ChildDied", "text": "history child died", "tb": ""})
            _send(out, res)
        elif cmd == "hend":
            if hist is not None:
                _end_history(hist)
                hist = None
            _send(out, ("ok", None))
    if hist is not None:
        _end_history(hist)


def _end_history(hist):
    pid, fw, fr = hist
    try:
        _send(fw, ("end", None))
    except Exception:  # noqa: BLE001
        pass
    try:
        fw.close()
        fr.close()
    except Exception:  # noqa: BLE001
        pass
    try:
        os.waitpid(pid, 0)
    except ChildProcessError:
        pass


class Zygote:
    """Client side: starts the zygote process and talks to it."""

    def __init__(self, module_name):
        env = dict(os.environ)
        self.proc = subprocess.Popen(
            [sys.executable, "-m", "vlib.fresh", module_name], stdin=subprocess.PIPE,
            stdout=subprocess.PIPE, env=env,
            cwd=os.path.dirname(os.path.dirname(os.path.abspath(__file__))))
        msg = _recv(self.proc.stdout)
        if msg[0] != "ready":
            raise RuntimeError("zygote did not start")

    def call(self, cmd, payload=None):
        _send(self.proc.stdin, (cmd, payload))
        return _recv(self.proc.stdout)

    def close(self):
        try:
            _send(self.proc.stdin, ("quit", None))
            self.proc.stdin.close()
        except Exception:  # noqa: BLE001
            pass
        try:
            self.proc.wait(timeout=10)
        except Exception:  # noqa: BLE001
            self.proc.kill()


_ZYGOTES = {}


def get_zygote(module_name) -> Zygote:
    z = _ZYGOTES.get(module_name)
    if z is None or z.proc.poll() is not None:
        z = Zygote(module_name)
        _ZYGOTES[module_name] = z
    return z


if __name__ == "__main__":
    zygote_main(sys.argv[1])
