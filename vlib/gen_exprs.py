"""Random expression ASTs (nested JSON lists), text renderer and an independent evaluator.

AST nodes::

    ["var", name]                 variable (value range known to the generator)
    ["idx", name, i]              indexed variable ``name[i]``
    ["uconst", name]              user constant (``consts=`` of py-pde)
    ["num", v]                    non-negative numeric literal
    ["const", "pi"|"E"]
    ["neg", a] ["add", a, b] ["sub", a, b] ["mul", a, b] ["div", a, b]
    ["pow", a, n]                 integer power (n is a python int, may be negative)
    ["rpow", a, b]                real power of a positive base
    ["call", fname, a]            unary function of the frozen grammar (FUNC1)
    ["call2", fname, a, b]        atan2 | hypot | Mod
    ["heav", a, h0|None]          heaviside(a, h0); h0 None = one-argument form (value 1/2 at 0)
    ["ufunc", name, a, ...]       user function (UFUNCS)
    ["cmp", op, a, b]             comparison, only generated at top level
    ["op", name, a, ...]          differential operator (C10 only; rendered, never evaluated here)

Every generated formula is well-conditioned *by construction*: the builder carries a
conservative interval for every sub-term (from the known ranges of the variables) and wraps
arguments of functions with a restricted domain in a guard (``1+u**2``, ``2+sin(u)`` ...)
unless the interval already satisfies the requirement.  The guard is part of the AST.

The evaluator (:class:`Evaluator`) works directly on the AST with NumPy; it shares nothing
with sympy, lambdify or py-pde.  Next to the value it returns

* ``E``: a running forward error scale (in units of one rounding error), i.e. the sum of the
  magnitudes of all partial terms weighted with the sensitivities of the enclosing
  operations.  A correct evaluation of *any* algebraically equivalent arrangement of the
  formula differs from the value by a modest multiple of ``eps*E``.
* ``bad``: mask of points that are too close to a jump of floor/ceiling/Mod/heaviside/
  comparison/atan2 to be judged (jump location of a rearranged formula may differ by
  round-off).  Jumps whose argument is computed exactly (``x``, ``x - 0.5`` ...) are judged
  exactly, including the value *at* the jump.
* optionally the derivative ``d`` with respect to one variable (forward mode) and its
  error scale ``DE``.
"""

from __future__ import annotations

import math
import random

import numpy as np
from hypothesis import strategies as st

EPS = float(np.finfo(float).eps)
CAP = 100.0  # magnitude cap of any sub-term (interval bound)
#: switch for an exclusion by construction: when True every Mod node that is not the root of the
#: formula is wrapped in an opaque function so that it cannot become a factor of a product.  It was
#: used while "-3*(x % 2)" was compiled to "-3*x % 2" (repaired in the repository by the commit
#: "fix: parenthesize modulo terms ..."; witnesses live in regressions/C11).
MOD_BARRIER = False


class DomainBug(Exception):
    """The generator produced a formula that leaves a function's domain (harness bug)."""


# =========================================================================================
# function tables
# =========================================================================================
_erf = np.vectorize(math.erf, otypes=[float])


def _iv_mono(f):
    return lambda lo, hi: (f(lo), f(hi))


def _iv_anti(f):
    return lambda lo, hi: (f(hi), f(lo))


def _iv_sin(lo, hi):
    """range of sin over [lo, hi] (tight, so that asin(sin(u)) passes the domain guard on narrow intervals)"""
    if not (math.isfinite(lo) and math.isfinite(hi)) or hi - lo >= 2 * math.pi:
        return (-1.0, 1.0)
    vals = [math.sin(lo), math.sin(hi)]
    k = math.ceil((lo - math.pi / 2) / math.pi)
    while math.pi / 2 + k * math.pi <= hi:
        vals.append(1.0 if k % 2 == 0 else -1.0)
        k += 1
    # (outward rounding: the end points are computed with round-off)
    return (max(-1.0, min(vals) - 1e-12), min(1.0, max(vals) + 1e-12))


def _iv_cos(lo, hi):
    return _iv_sin(lo + math.pi / 2, hi + math.pi / 2)


def _iv_cosh(lo, hi):
    m1 = max(abs(lo), abs(hi))
    m0 = 0.0 if lo <= 0 <= hi else min(abs(lo), abs(hi))
    return (math.cosh(m0), math.cosh(m1))


def _iv_sec(lo, hi):
    m1 = max(abs(lo), abs(hi))
    m0 = 0.0 if lo <= 0 <= hi else min(abs(lo), abs(hi))
    return (1 / math.cos(m0), 1 / math.cos(m1))


def _iv_abs(lo, hi):
    m1 = max(abs(lo), abs(hi))
    m0 = 0.0 if lo <= 0 <= hi else min(abs(lo), abs(hi))
    return (m0, m1)


# domain kinds: any | b4 (|u|<=4) | b6 | tan (|u|<=1.3) | cot (0.4<=u<=2.7) | unit (|u|<=0.9)
#               | pos (u>=0.3) | ge (u>=1.2)
DOMAINS = {
    "any": (-math.inf, math.inf), "b4": (-4.0, 4.0), "b6": (-6.0, 6.0), "tan": (-1.3, 1.3),
    "cot": (0.4, 2.7), "unit": (-0.9, 0.9), "pos": (0.3, math.inf), "ge": (1.2, math.inf),
}

# name: (domain, f, df, interval, flags)   flags: s = smooth and differentiable by sympy,
#       j = jump, u = unknown to sympy (no symbolic derivative), n = numpy route only
FUNC1 = {
    "sin": ("any", np.sin, np.cos, _iv_sin, "s"),
    "cos": ("any", np.cos, lambda u: -np.sin(u), _iv_cos, "s"),
    "tan": ("tan", np.tan, lambda u: 1 / np.cos(u) ** 2, _iv_mono(math.tan), "s"),
    "asin": ("unit", np.arcsin, lambda u: 1 / np.sqrt(1 - u * u), _iv_mono(math.asin), "s"),
    "acos": ("unit", np.arccos, lambda u: -1 / np.sqrt(1 - u * u), _iv_anti(math.acos), "s"),
    "atan": ("any", np.arctan, lambda u: 1 / (1 + u * u), _iv_mono(math.atan), "s"),
    "sinh": ("b4", np.sinh, np.cosh, _iv_mono(math.sinh), "s"),
    "cosh": ("b4", np.cosh, np.sinh, _iv_cosh, "s"),
    "tanh": ("any", np.tanh, lambda u: 1 - np.tanh(u) ** 2, _iv_mono(math.tanh), "s"),
    "asinh": ("any", np.arcsinh, lambda u: 1 / np.sqrt(1 + u * u), _iv_mono(math.asinh), "s"),
    "acosh": ("ge", np.arccosh, lambda u: 1 / np.sqrt(u * u - 1), _iv_mono(math.acosh), "s"),
    "atanh": ("unit", np.arctanh, lambda u: 1 / (1 - u * u), _iv_mono(math.atanh), "s"),
    "exp": ("b4", np.exp, np.exp, _iv_mono(math.exp), "s"),
    "exp2": ("b6", lambda u: 2.0 ** u, lambda u: math.log(2.0) * 2.0 ** u,
             _iv_mono(lambda v: 2.0 ** v), "u"),
    "log": ("pos", np.log, lambda u: 1 / u, _iv_mono(math.log), "s"),
    "sqrt": ("pos", np.sqrt, lambda u: 0.5 / np.sqrt(u), _iv_mono(math.sqrt), "s"),
    "cbrt": ("pos", np.cbrt, lambda u: np.cbrt(u) / (3 * u), _iv_mono(lambda v: v ** (1 / 3)), "s"),
    # (sensitivity 1 also AT zero: |0.07 - 0.07000000000000001| is 0 in floating point and 3e-18 for sympy)
    "Abs": ("any", np.abs, lambda u: np.where(np.asarray(u) >= 0, 1.0, -1.0), _iv_abs, ""),
    "floor": ("any", np.floor, None, _iv_mono(math.floor), "j"),
    "ceiling": ("any", np.ceil, None, _iv_mono(math.ceil), "j"),
    "sec": ("tan", lambda u: 1 / np.cos(u), lambda u: np.sin(u) / np.cos(u) ** 2, _iv_sec, "s"),
    "cot": ("cot", lambda u: np.cos(u) / np.sin(u), lambda u: -1 / np.sin(u) ** 2,
            _iv_anti(lambda v: math.cos(v) / math.sin(v)), "s"),
    "erf": ("any", _erf, lambda u: 2 / math.sqrt(math.pi) * np.exp(-u * u), _iv_mono(math.erf), "sn"),
}

SMOOTH1 = sorted(k for k, v in FUNC1.items() if "s" in v[4] and "n" not in v[4])
JUMP1 = sorted(k for k, v in FUNC1.items() if "j" in v[4])

# ---- user functions: python implementation handed to py-pde + defining AST template --------


def uf_sq1(a):
    return a * a + 1.0


def uf_lin2(a, b):
    return 2.0 * a - b


def uf_mix3(a, b, c):
    return a - b * c


UFUNCS = {
    "sq1": (uf_sq1, 1, lambda a: ["add", ["mul", a, a], ["num", 1.0]]),
    "lin2": (uf_lin2, 2, lambda a, b: ["sub", ["mul", ["num", 2.0], a], b]),
    "mix3": (uf_mix3, 3, lambda a, b, c: ["sub", a, ["mul", b, c]]),
}

HYPERBOLIC = {"sinh", "cosh", "tanh", "asinh", "acosh", "atanh"}
#: functions of a sum that sympy.simplify expands term by term (exponential cost in the number of
#: additive terms of the expanded argument: sin((a + b*c - 4.)**3) takes minutes)
EXPANDING = {"sin", "cos", "tan", "sec", "cot", "sinh", "cosh", "tanh"}


def expanded_terms(ast):
    """rough number of additive terms of the expanded polynomial form of the AST"""
    k = ast[0]
    if k in ("add", "sub"):
        return expanded_terms(ast[1]) + expanded_terms(ast[2])
    if k == "mul":
        return expanded_terms(ast[1]) * expanded_terms(ast[2])
    if k in ("div", "neg"):
        return expanded_terms(ast[1])
    if k == "pow":
        n = int(ast[2])
        return expanded_terms(ast[1]) ** min(n, 4) if n > 0 else 1
    if k == "ufunc":
        return expanded_terms(UFUNCS[ast[1]][2](*ast[2:]))
    return 1
NONCOMM = {"sub", "div", "pow", "rpow"}
CMP_OPS = (">", "<", ">=", "<=")


def user_funcs_of(ast):
    """dict of the python user functions used in the AST (for ``user_funcs=``)"""
    found = {}

    def walk(n):
        if isinstance(n, list):
            if n and n[0] == "ufunc":
                found[n[1]] = UFUNCS[n[1]][0]
            for c in n[1:]:
                walk(c)

    walk(ast)
    return found


# =========================================================================================
# interval arithmetic on ASTs (generator side)
# =========================================================================================
def _mul_iv(a, b):
    ps = [a[0] * b[0], a[0] * b[1], a[1] * b[0], a[1] * b[1]]
    return (min(ps), max(ps))


def _powint_iv(a, n):
    lo, hi = a
    if n == 0:
        return (1.0, 1.0)
    if n < 0:
        if lo <= 0 <= hi:
            raise DomainBug("negative power of an interval containing zero")
        p = _powint_iv(a, -n)
        return (min(1 / p[0], 1 / p[1]), max(1 / p[0], 1 / p[1]))
    if n % 2 == 1:
        return (lo ** n, hi ** n)
    m1 = max(abs(lo), abs(hi))
    m0 = 0.0 if lo <= 0 <= hi else min(abs(lo), abs(hi))
    return (m0 ** n, m1 ** n)


def interval(ast, ranges):
    """Conservative interval of the AST; ``ranges``: name -> (lo, hi) for var/idx/uconst."""
    k = ast[0]
    if k in ("var", "idx", "uconst"):
        return tuple(ranges[ast[1]])
    if k == "num":
        return (float(ast[1]), float(ast[1]))
    if k == "const":
        v = math.pi if ast[1] == "pi" else math.e
        return (v, v)
    if k == "neg":
        lo, hi = interval(ast[1], ranges)
        return (-hi, -lo)
    if k in ("add", "sub", "mul", "div"):
        a = interval(ast[1], ranges)
        b = interval(ast[2], ranges)
        if k == "add":
            return (a[0] + b[0], a[1] + b[1])
        if k == "sub":
            return (a[0] - b[1], a[1] - b[0])
        if k == "mul":
            return _mul_iv(a, b)
        if b[0] <= 0 <= b[1]:
            raise DomainBug("denominator interval contains zero")
        return _mul_iv(a, (1 / b[1], 1 / b[0]))
    if k == "pow":
        return _powint_iv(interval(ast[1], ranges), int(ast[2]))
    if k == "rpow":
        a = interval(ast[1], ranges)
        b = interval(ast[2], ranges)
        if a[0] <= 0:
            raise DomainBug("real power of a non-positive base")
        e = _mul_iv((math.log(a[0]), math.log(a[1])), b)
        return (math.exp(e[0]), math.exp(e[1]))
    if k == "call":
        dom, _f, _df, ivf, _fl = FUNC1[ast[1]]
        lo, hi = interval(ast[2], ranges)
        dlo, dhi = DOMAINS[dom]
        if lo < dlo - 1e-12 or hi > dhi + 1e-12:
            raise DomainBug(f"{ast[1]} argument interval {(lo, hi)} outside {dom}")
        return ivf(lo, hi)
    if k == "call2":
        a = interval(ast[2], ranges)
        b = interval(ast[3], ranges)
        if ast[1] == "atan2":
            return (-math.pi, math.pi)
        if ast[1] == "hypot":
            return (0.0, math.hypot(max(abs(a[0]), abs(a[1])), max(abs(b[0]), abs(b[1]))))
        if ast[1] == "Mod":
            if b[0] <= 0 <= b[1]:
                raise DomainBug("Mod divisor interval contains zero")
            return (0.0, b[1]) if b[0] > 0 else (b[0], 0.0)
        raise DomainBug(ast[1])
    if k in ("heav", "cmp"):
        return (0.0, 1.0)
    if k == "ufunc":
        return interval(UFUNCS[ast[1]][2](*ast[2:]), ranges)
    raise DomainBug(f"unknown node {k}")


# =========================================================================================
# builder (Hypothesis side)
# =========================================================================================
PROFILE_FULL = {"jump": True, "abs": True, "undef": True, "ufunc": True, "erf": False,
                "rpow": True, "funcs": None}
PROFILE_NUMPY = dict(PROFILE_FULL, erf=True)
#: `evaluate` and `PDE` read every function unknown to sympy as a differential operator (hypot, exp2
#: end in a NotImplementedError "not defined for <grid>")
PROFILE_FIELDS = dict(PROFILE_NUMPY, undef=False)
#: differentiable nodes whose derivative sympy can print (derivative sub-check)
PROFILE_SMOOTH = {"jump": False, "abs": False, "undef": False, "ufunc": False, "erf": False,
                  "rpow": True, "funcs": None}
#: what sympy alone can evaluate numerically (parse_number)
PROFILE_SYMPY = {"jump": True, "abs": True, "undef": False, "ufunc": False, "erf": True,
                 "rpow": True, "funcs": None, "heav": False}
#: what NumbaBackend._make_expression_array compiles (it prints with str(); Abs, ceiling, sec, cot,
#: Mod, erf and the one-argument Heaviside - also written as heaviside(x, 0.5), which str() prints
#: as Heaviside(x) - end in a numba TypingError)
PROFILE_ARRAY = {"jump": False, "abs": False, "undef": True, "ufunc": False, "erf": False, "rpow": True,
                 "constE": False,  # str(E) = "E" is not a name of the numpy namespace (loud TypingError)
                 "mod": False, "heav": True, "heav1": False, "atan2": True, "hypot": True,
                 "funcs": ["sin", "cos", "tan", "asin", "acos", "atan", "sinh", "cosh", "tanh", "asinh",
                           "acosh", "atanh", "exp", "exp2", "log", "sqrt", "cbrt", "floor"]}
#: arithmetic + a few smooth functions (right-hand sides of PDEs)
PROFILE_PDE = {"jump": False, "abs": False, "undef": False, "ufunc": False, "erf": False,
               "rpow": False, "funcs": ["sin", "cos", "tanh", "exp", "sqrt", "log", "atan"]}

#: inverse: (forward, centre of the argument window off the principal branch, half width of the window)
OFF_BRANCH = {"asin": ("sin", math.pi, 1.0), "acos": ("cos", 1.5 * math.pi, 1.0), "acosh": ("cosh", -2.2, 1.4)}

NUMS = [1.0, 2.0, 3.0, 0.5, 0.25, 1.5, 2.5, 0.1, 0.3, 10.0, 4.0, 0.75, 7.0]
#: 'nice' argument values (exact hits of jumps such as heaviside(x - 0.5))
NICE = [0.5, 1.0, -0.5, 0.0, -1.0, 2.0, -2.0, 0.25, 1.5, 3.0, -3.0]


def _num_strategy():
    return st.one_of(
        st.sampled_from(NUMS),
        st.integers(1, 999).map(lambda i: i / 100.0),
        st.sampled_from([1e-3, 1e-2, 20.0, 0.125, 1 / 3, 2 / 3, 1.2345678901234567, 0.0]),
    )


class Builder:
    """Draws a guarded AST; ``leaves``: list of (ast, (lo, hi)) of the available leaves."""

    def __init__(self, draw, leaves, ranges, profile, budget):
        self.draw = draw
        self.leaves = list(leaves)
        self.ranges = dict(ranges)
        self.p = profile
        self.budget = budget
        # NB: Hypothesis favours the first element of sampled_from -> common choices first
        kinds = ["sub"] * 4 + ["mul"] * 4 + ["f1"] * 6 + ["div"] * 4 + ["add"] * 3 + ["pow"] * 3 + ["neg"] * 2
        if profile.get("rpow"):
            kinds += ["rpow"] * 2
        if profile.get("atan2", profile.get("funcs") is None):
            kinds += ["atan2"]
        if profile.get("hypot", profile.get("undef")):
            kinds += ["hypot"]
        if profile.get("mod", profile.get("jump")):
            kinds += ["mod"] * int(profile.get("mod_weight", 1))
        if profile.get("heav", profile.get("jump")):
            kinds += ["heav"] * 2
        if profile.get("ufunc"):
            kinds += ["ufunc"] * 2
        self.kinds_root = list(kinds)
        kinds += ["leaf"] * 2
        self.kinds = kinds
        f1 = []
        for name, (dom, _f, _df, _iv, fl) in FUNC1.items():
            if profile.get("funcs") is not None:
                if name in profile["funcs"]:
                    f1.append(name)
                continue
            if "j" in fl and not profile.get("jump"):
                continue
            if name == "Abs" and not profile.get("abs"):
                continue
            if "u" in fl and not profile.get("undef"):
                continue
            if "n" in fl and not profile.get("erf"):
                continue
            f1.append(name)
        # hyperbolic functions make sympy.simplify slow (exponential rewriting): half weight
        self.f1 = [n for n in f1 for _ in range(1 if n in HYPERBOLIC else 2)]

    # -- helpers ----------------------------------------------------------------------
    def iv(self, ast):
        return interval(ast, self.ranges)

    def pick(self, seq):
        return self.draw(st.sampled_from(list(seq)))

    def num(self):
        return ["num", float(self.draw(_num_strategy()))]

    def chance(self, k, n):
        """True with probability k/n (uniform, unlike st.integers which favours the end points)"""
        return self.draw(st.sampled_from([False] * (n - k) + [True] * k))

    def leaf(self):
        r = self.pick(["var"] * 13 + ["num"] * 6 + ["const"])
        if r == "var" and self.leaves:
            return self.pick(self.leaves)
        if r == "const":
            return ["const", self.pick(["pi", "E"] if self.p.get("constE", True) else ["pi"])]
        return self.num()

    def exact_arg(self):
        """``x - c`` with a variable x and a 'nice' c inside its range (exactly computed, so that the
        value *at* a jump is judged when an argument value hits c; see :func:`jump_anchors`)"""
        cands = [l for l in self.leaves if l[0] in ("var", "idx")]
        if not cands:
            return None
        v = self.pick(cands)
        lo, hi = self.ranges[v[1]]
        nice = [c for c in NICE if lo <= c <= hi]
        if not nice:
            return None
        c = self.pick(nice)
        if c == 0:
            return v
        return ["sub", v, ["num", c]] if c > 0 else ["add", v, ["num", -c]]

    def off_branch(self, inv):
        """``inv(fwd(s*x + c))`` with the argument OUTSIDE the principal branch of ``inv`` (after missed
        seed C11-5: a simplification that cancels inverse(forward(x)) is only wrong there), e.g.
        asin(sin(x + 2.64)) with x + 2.64 around pi, acosh(cosh(x - 2)) with a negative argument"""
        fwd, centre, half = OFF_BRANCH[inv]
        cands = [l for l in self.leaves if l[0] == "var"]
        if not cands:
            return None
        x = self.pick(cands)
        lo, hi = self.ranges[x[1]]
        scale = 1.0
        while (hi - lo) * scale > 2 * half:
            scale /= 2  # (powers of two: exact)
        c = round(centre - 0.5 * (lo + hi) * scale, 2)
        inner = x if scale == 1.0 else ["mul", ["num", scale], x]
        if c > 0:
            inner = ["add", inner, ["num", c]]
        elif c < 0:
            inner = ["sub", inner, ["num", -c]]
        res = ["call", inv, ["call", fwd, inner]]
        try:
            self.iv(res)
        except DomainBug:
            return None
        self.budget -= 2
        return res

    def guard(self, u, lo_req, hi_req, templates):
        """Return ``u`` if its interval lies in [lo_req, hi_req], else a wrapped version."""
        lo, hi = self.iv(u)
        if lo >= lo_req and hi <= hi_req:
            return u
        big = size_of(u) > 6
        wide = expanded_terms(u) > 3

        def fitting(restrict):
            cands = []
            for t in templates:
                if restrict and big and getattr(t, "dup", False):
                    continue  # templates that duplicate the term are reserved for small terms
                if restrict and wide and not getattr(t, "flat", False):
                    continue  # no trigonometric function of a wide sum (sympy.simplify explodes)
                try:
                    w = t(u)
                    wl, wh = self.iv(w)
                except (DomainBug, OverflowError, ZeroDivisionError):
                    continue
                if wl >= lo_req and wh <= hi_req:
                    cands.append(w)
            return cands

        cands = fitting(True)
        if not cands:
            # universal fallback: centre + amp*atan(u) always fits
            if math.isinf(hi_req):
                centre, amp = lo_req + 1.6, 1.0
            elif math.isinf(lo_req):
                centre, amp = hi_req - 1.6, 1.0
            else:
                centre, amp = 0.5 * (lo_req + hi_req), round(0.63 * 0.5 * (hi_req - lo_req), 4)
            centre = round(centre, 4)
            w = ["mul", ["num", amp], ["call", "atan", u]]
            if centre > 0:
                w = ["add", ["num", centre], w]
            elif centre < 0:
                w = ["sub", w, ["num", -centre]]
            wl, wh = self.iv(w)
            if not (wl >= lo_req and wh <= hi_req):
                raise DomainBug(f"no guard fits [{lo_req}, {hi_req}] for interval {(lo, hi)}")
            cands = [w] + fitting(False)
        return self.pick(cands)

    # guard templates (u -> AST); tanh is avoided here: sympy.simplify is very slow on
    # hyperbolic functions combined with floating-point powers
    def _t_pos(self):
        def flat(f):
            f.flat = True
            return f

        t = [
            lambda u: ["add", ["num", 1.0], ["pow", u, 2]],
            lambda u: ["add", ["num", 2.0], ["call", "sin", u]],
            lambda u: ["add", ["call", "cos", u], ["num", 1.5]],
            flat(lambda u: ["add", ["num", 2.0], ["call", "atan", u]]),
            lambda u: ["sub", ["num", 3.0], ["call", "sin", u]],
            lambda u: ["add", ["num", 0.5], ["pow", ["call", "cos", u], 2]],
            flat(lambda u: ["sub", ["num", 2.0], ["call", "atan", u]]),
        ]
        if self.p.get("abs"):
            t.append(flat(lambda u: ["add", ["call", "Abs", u], ["num", 0.5]]))
        return t

    def _t_sym(self, s):
        """templates with range inside [-s, s] (s >= 0.9)"""
        c = round(0.9 * s, 3)
        c2 = round(0.57 * s, 3)

        def rat(u):
            return ["div", u, ["add", ["num", 1.0], ["pow", u, 2]]]

        def at(u):
            return ["mul", ["call", "atan", u], ["num", c2]]

        rat.dup = True
        at.flat = True
        at1 = lambda u: ["call", "atan", u]  # noqa: E731
        at1.flat = True
        return [
            lambda u: ["mul", ["num", c], ["call", "sin", u]],
            rat,
            at,
            lambda u: ["call", "sin", u],
            lambda u: ["call", "cos", u],
            at1,
            lambda u: ["mul", ["num", 0.5], ["call", "cos", u]],
        ]

    @staticmethod
    def _flat(f):
        f.flat = True
        return f

    def g_pos(self, u, hi=math.inf, lo=0.3):
        return self.guard(u, lo, hi, self._t_pos())

    def g_nonzero(self, u):
        lo, hi = self.iv(u)
        if lo >= 0.3 or hi <= -0.3:
            return u
        w = self.guard(u, 0.3, math.inf, self._t_pos())
        if self.chance(1, 4):
            w = ["neg", w]
        return w

    def g_dom(self, u, dom):
        if dom == "any":
            return u
        lo, hi = DOMAINS[dom]
        if dom == "pos":
            return self.g_pos(u)
        if dom == "ge":
            return self.guard(u, lo, hi, [
                lambda u: ["add", ["num", 1.5], ["pow", u, 2]],
                lambda u: ["add", ["num", 2.5], ["call", "sin", u]],
                lambda u: ["add", ["call", "cosh", ["call", "sin", u]], ["num", 0.5]],
                lambda u: ["sub", ["num", 3.0], ["call", "cos", u]],
                self._flat(lambda u: ["add", ["num", 3.0], ["call", "atan", u]]),
            ])
        if dom == "cot":
            return self.guard(u, lo, hi, [
                lambda u: ["add", ["num", 1.5], ["call", "sin", u]],
                lambda u: ["add", ["call", "cos", u], ["num", 1.5]],
                lambda u: ["add", ["num", 1.0], ["div", ["num", 1.0], ["add", ["num", 1.0], ["pow", u, 2]]]],
                self._flat(lambda u: ["add", ["num", 1.55], ["mul", ["num", 0.7], ["call", "atan", u]]]),
            ])
        return self.guard(u, lo, hi, self._t_sym(hi))

    def cap(self, u):
        lo, hi = self.iv(u)
        if max(abs(lo), abs(hi)) <= CAP:
            return u
        if expanded_terms(u) > 3:
            return ["call", "atan", u]
        return self.pick([["call", "tanh", u], ["call", "sin", u], ["call", "atan", u], ["call", "cos", u]])

    # -- recursive draw -----------------------------------------------------------------
    def node(self, depth, root=False):
        self.budget -= 1
        if depth <= 0 or self.budget <= 0:
            return self.leaf()
        k = self.pick(self.kinds_root if root else self.kinds)
        if k == "leaf":
            return self.leaf()
        if k in ("add", "sub", "mul"):
            res = [k, self.node(depth - 1), self.node(depth - 1)]
        elif k == "div":
            a = self.node(depth - 1)
            b = self.g_nonzero(self.node(depth - 1))
            res = ["div", a, b]
        elif k == "neg":
            res = ["neg", self.node(depth - 1)]
        elif k == "pow":
            n = self.pick([2, 3, -1, -2, 2, 3, 4, -3, 1, 0])
            a = self.node(depth - 1)
            if n < 0:
                a = self.g_nonzero(a)
            if abs(n) >= 2:
                lo, hi = self.iv(a)
                if max(abs(lo), abs(hi)) ** abs(n) > 1e4 or (n < 0 and min(abs(lo), abs(hi)) ** abs(n) < 1e-4):
                    a = self.guard(a, 0.5, 3.0, self._t_pos()) if n < 0 else \
                        self.guard(a, -3.0, 3.0, self._t_sym(3.0))
            res = ["pow", a, n]
        elif k == "rpow":
            a = self.g_pos(self.node(depth - 1), hi=10.0)
            if self.draw(st.booleans()):
                b = ["num", self.pick([0.5, 1.5, 2.5, 1 / 3, 0.3, 2.0, 1.25])]
                if self.chance(1, 3):
                    b = ["neg", b]
            else:
                b = self.guard(self.node(depth - 1), -3.0, 3.0, self._t_sym(3.0))
            res = ["rpow", a, b]
        elif k == "f1":
            invs = [n for n in OFF_BRANCH if n in self.f1 and OFF_BRANCH[n][0] in self.f1]
            if invs and self.p.get("off_branch", True) and self.chance(1, 5):
                res = self.off_branch(self.pick(invs))
                if res is not None:
                    return res
            name = self.pick(self.f1)
            arg = self.node(depth - 1)
            if name in EXPANDING and expanded_terms(arg) > 3:
                flat = [n for n in self.f1 if n not in EXPANDING]
                name = self.pick(flat) if flat else name
            res = ["call", name, self.g_dom(arg, FUNC1[name][0])]
        elif k == "atan2":
            a = self.node(depth - 1)
            b = self.node(depth - 1)
            if self.draw(st.booleans()):
                a = self.g_nonzero(a)
            else:
                b = self.g_nonzero(b)
            res = ["call2", "atan2", a, b]
        elif k == "hypot":
            res = ["call2", "hypot", self.node(depth - 1), self.node(depth - 1)]
        elif k == "mod":
            res = ["call2", "Mod", self.node(depth - 1), self.g_nonzero(self.node(depth - 1))]
            if self.p.get("mod_barrier", MOD_BARRIER) and not root:
                # a Mod node must not be able to become a factor of a product
                res = ["call", self.pick(["sin", "cos", "tanh", "atan"]), res]
        elif k == "heav":
            h0 = self.pick([0.3, 0.5, 0.0, 1.0, None, 0.75] if self.p.get("heav1", True) else
                           [0.0, 1.0, 0.3, 0.75])
            arg = self.exact_arg() if self.chance(1, 2) else None
            res = ["heav", arg if arg is not None else self.node(min(depth - 1, 1)), h0]
        elif k == "ufunc":
            name = self.pick(sorted(UFUNCS))
            res = ["ufunc", name] + [self.node(depth - 1) for _ in range(UFUNCS[name][1])]
        else:  # pragma: no cover
            raise DomainBug(k)
        return self.cap(res)


@st.composite
def variables(draw, min_vars=1, max_vars=4, names=None, indexed=False):
    """Draw a list of variable descriptions ``{"name", "lo", "hi", "n"}`` (n>0: indexed)."""
    pool = list(names or ["x", "y", "z", "t", "a", "b", "c", "u", "v", "w", "r", "s", "phi", "c1",
                          "u_x", "rho"])
    n = draw(st.sampled_from([k for k in (2, 3, 1, 4, 0) if min_vars <= k <= max_vars]))
    chosen = draw(st.permutations(pool).map(lambda p: list(p)[:n]))
    res = []
    for i, name in enumerate(chosen):
        lo, hi = draw(st.sampled_from([(-2.0, 2.0), (-1.0, 1.0), (0.0, 1.0), (0.5, 3.0), (-5.0, 5.0),
                                       (0.0, 10.0), (-3.0, -0.5), (1.0, 2.0), (-0.5, 0.5)]))
        nidx = draw(st.sampled_from([0, 0, 0, 0, 2, 3, 0, 0])) if indexed and i == 0 else 0
        res.append({"name": name, "lo": lo, "hi": hi, "n": nidx})
    return res


@st.composite
def uconsts(draw, max_consts=2):
    """user constants: scalars (value known) or arrays (range known, values from a seed)"""
    res = []
    for name in draw(st.permutations(["k0", "amp", "carr", "D_1"]).map(lambda p: list(p)[:max_consts])):
        if not draw(st.booleans()):
            continue
        if name == "carr" or draw(st.sampled_from([False, False, False, True])):
            lo, hi = draw(st.sampled_from([(-1.0, 1.0), (0.5, 2.0), (-3.0, 3.0)]))
            res.append({"name": name, "lo": lo, "hi": hi, "seed": draw(st.integers(0, 2**31))})
        else:
            v = draw(st.one_of(st.sampled_from([2.0, 0.5, -1.0, 1.0, 0.0, -2.5, 3.0, 0.1]),
                               st.integers(-300, 300).map(lambda i: i / 100.0)))
            res.append({"name": name, "value": float(v)})
    return res


def leaves_and_ranges(varlist, constlist=()):
    leaves, ranges = [], {}
    for v in varlist:
        ranges[v["name"]] = (float(v["lo"]), float(v["hi"]))
        if v.get("n"):
            leaves += [["idx", v["name"], i] for i in range(v["n"])]
        else:
            leaves.append(["var", v["name"]])
    for c in constlist:
        if "value" in c:
            ranges[c["name"]] = (float(c["value"]), float(c["value"]))
        else:
            ranges[c["name"]] = (float(c["lo"]), float(c["hi"]))
        leaves.append(["uconst", c["name"]])
    return leaves, ranges


@st.composite
def asts(draw, varlist, constlist=(), profile=None, max_depth=5, min_depth=1, budget=22,
         cmp_top=False):
    """Draw a guarded AST over the given variables/constants."""
    profile = PROFILE_FULL if profile is None else profile
    leaves, ranges = leaves_and_ranges(varlist, constlist)
    depth = draw(st.sampled_from([d for d in (4, 3, 5, 4, 3, 5, 2) if min_depth <= d <= max_depth]
                                 or [max_depth]))
    b = Builder(draw, leaves, ranges, profile, budget)
    if cmp_top and draw(st.sampled_from([False] * 7 + [True])):
        op = draw(st.sampled_from(CMP_OPS))
        ea = b.exact_arg() if draw(st.booleans()) else None
        if ea is not None:  # e.g. `x - 0.5 >= 0`, `x <= 1.5`: judged exactly, also at equality
            if ea[0] in ("add", "sub") and draw(st.booleans()):
                rhs = ea[2] if ea[0] == "sub" else ["neg", ea[2]]
                return ["cmp", op, ea[1], rhs] if rhs[0] == "num" else ["cmp", op, ea, ["num", 0.0]]
            return ["cmp", op, ea, ["num", 0.0]]
        return ["cmp", op, b.node(depth - 1, root=True), b.node(depth - 1)]
    return b.node(depth, root=True)


# =========================================================================================
# statistics / classification
# =========================================================================================
def depth_of(ast):
    if not isinstance(ast, list) or ast[0] in ("var", "idx", "uconst", "num", "const"):
        return 0
    start = 2 if ast[0] in ("call", "call2", "ufunc", "cmp", "op") else 1
    kids = [c for c in ast[start:] if isinstance(c, list)]
    return 1 + max([depth_of(c) for c in kids], default=0)


def kinds_of(ast, acc=None):
    """set of node descriptors (``add``, ``call:sin`` ...)"""
    acc = set() if acc is None else acc
    k = ast[0]
    if k in ("call", "call2", "ufunc", "op"):
        acc.add(f"{k}:{ast[1]}")
        kids = ast[2:]
    elif k == "cmp":
        acc.add("cmp")
        kids = ast[2:]
    else:
        acc.add(k)
        kids = ast[1:]
    for c in kids:
        if isinstance(c, list):
            kinds_of(c, acc)
    return acc


def size_of(ast):
    return 1 + sum(size_of(c) for c in ast[1:] if isinstance(c, list))


def names_in(ast, kinds=("var", "idx")):
    acc = set()

    def walk(n):
        if n[0] in kinds:
            acc.add(n[1])
        for c in n[1:]:
            if isinstance(c, list):
                walk(c)

    walk(ast)
    return acc


def has_nested_noncomm(ast, inside=False):
    """True when a non-commutative operator (- / **) occurs below another one."""
    k = ast[0]
    nc = k in NONCOMM
    if nc and inside:
        return True
    return any(has_nested_noncomm(c, inside or nc) for c in ast[1:] if isinstance(c, list))


def nontrivial(ast):
    return depth_of(ast) >= 3 and has_nested_noncomm(ast)


# =========================================================================================
# renderer
# =========================================================================================
P_ATOM, P_POW, P_NEG, P_MUL, P_ADD, P_CMP = 100, 80, 70, 60, 50, 40


def _fmt_num(v, rnd):
    v = float(v)
    if v == int(v) and abs(v) < 1e6:
        i = int(v)
        return rnd.choice([f"{i}", f"{i}", f"{i}.0", f"{i}.", f"{i}e0" if i else "0"]), P_ATOM
    r = repr(v)
    alts = [r, r]
    if "e" not in r:
        for den in (2, 4, 8, 3, 5, 10):
            numer = v * den
            if numer == int(numer) and abs(numer) < 100 and float(int(numer)) / den == v:
                alts.append(f"{int(numer)}/{den}")
                break
        if r.startswith("0."):
            alts.append(r[1:])
        m, e = f"{v:.17e}".split("e")
        if float(f"{float(m)!r}e{int(e)}") == v:
            alts.append(f"{float(m)!r}e{int(e)}")
    s = rnd.choice(alts)
    return s, (P_MUL if "/" in s else P_ATOM)


class Renderer:
    """Render an AST as text in a syntactic shape determined by ``seed``.

    ``plain=True`` gives the canonical minimal form.  ``names`` maps variable names to the
    text to be used (aliases).  ``style`` fields (all optional): ``alt`` probability of
    alternative spellings, ``paren`` probability of redundant parentheses.
    """

    def __init__(self, seed=0, names=None, plain=False, alt=0.3, paren=0.15, unicode_ops=False):
        self.rnd = random.Random(int(seed))
        self.names = names or {}
        self.plain = plain
        self.alt = 0.0 if plain else alt
        self.paren = 0.0 if plain else paren
        self.space = True if plain else self.rnd.random() < 0.6
        self.unicode_ops = unicode_ops
        self.used_alt = set()

    # ---------------------------------------------------------------------------
    def text(self, ast):
        return self.r(ast)[0]

    def wrap(self, sp, need, strict=False):
        s, p = sp
        if p < need or (strict and p <= need):
            return f"({s})"
        return s

    def binop(self, op, a, b, prec, right_strict=True, tight=False):
        left = self.wrap(a, prec)
        right = self.wrap(b, prec, strict=right_strict)
        sp = " " if (self.space and not tight) else ""
        return f"{left}{sp}{op}{sp}{right}", prec

    def flip(self, name):
        if self.alt and self.rnd.random() < self.alt:
            self.used_alt.add(name)
            return True
        return False

    def r(self, ast):
        s, p = self._r(ast)
        if self.paren and p < P_ATOM + 1 and self.rnd.random() < self.paren and ast[0] not in ("num",):
            self.used_alt.add("parens")
            return f"({s})", P_ATOM
        return s, p

    def power(self, base_sp, expo_sp):
        base = self.wrap(base_sp, P_POW, strict=True)
        s, p = expo_sp
        expo = s if p >= P_NEG else f"({s})"
        return f"{base}**{expo}", P_POW

    def _r(self, ast):
        k = ast[0]
        rnd = self.rnd
        if k in ("var", "uconst"):
            return self.names.get(ast[1], ast[1]), P_ATOM
        if k == "idx":
            return f"{self.names.get(ast[1], ast[1])}[{int(ast[2])}]", P_ATOM
        if k == "num":
            if self.plain:
                v = float(ast[1])
                return (str(int(v)) if v == int(v) and abs(v) < 1e6 else repr(v)), P_ATOM
            return _fmt_num(ast[1], rnd)
        if k == "const":
            if ast[1] == "E" and self.flip("exp(1)"):
                return "exp(1)", P_ATOM
            return ast[1], P_ATOM
        if k == "neg":
            a = self.r(ast[1])
            if self.flip("neg-as-mul"):
                return self.binop("*", ("-1", P_NEG) if rnd.random() < 0.5 else ("(-1)", P_ATOM), a, P_MUL)
            s = self.wrap(a, P_NEG)
            if s.startswith("-"):
                s = f"({s})"
            return f"-{s}", P_NEG
        if k == "add":
            return self.binop("+", self.r(ast[1]), self.r(ast[2]), P_ADD)
        if k == "sub":
            a, b = self.r(ast[1]), self.r(ast[2])
            if self.flip("sub-as-add-neg"):
                nb = self.wrap(b, P_NEG)
                nb = f"-({nb})" if nb.startswith("-") else f"-{nb}"
                if rnd.random() < 0.5:
                    return self.binop("+", a, (f"({nb})", P_ATOM), P_ADD)
                return self.binop("+", (nb, P_NEG), a, P_ADD)
            return self.binop("-", a, b, P_ADD)
        if k == "mul":
            return self.binop("*", self.r(ast[1]), self.r(ast[2]), P_MUL)
        if k == "div":
            a, b = self.r(ast[1]), self.r(ast[2])
            if self.flip("div-as-pow"):
                inv = self.power(b, ("-1", P_NEG) if rnd.random() < 0.5 else ("(-1)", P_ATOM))
                return self.binop("*", a, inv, P_MUL)
            return self.binop("/", a, b, P_MUL)
        if k == "pow":
            n = int(ast[2])
            if self.unicode_ops and n in (2, 3) and not self.plain and rnd.random() < 0.4:
                self.used_alt.add("unicode-power")
                return self.wrap(self.r(ast[1]), P_POW, strict=True) + ("²" if n == 2 else "³"), P_POW
            e = (str(n), P_ATOM if n >= 0 else P_NEG)
            if n < 0 and rnd.random() < 0.5 and not self.plain:
                e = (f"({n})", P_ATOM)
            return self.power(self.r(ast[1]), e)
        if k == "rpow":
            return self.power(self.r(ast[1]), self.r(ast[2]))
        if k == "call":
            name = ast[1]
            a = self.r(ast[2])
            if name == "sqrt" and self.flip("sqrt-as-pow"):
                return self.power(a, rnd.choice([("0.5", P_ATOM), ("(1/2)", P_ATOM)]))
            if name == "cbrt" and self.flip("cbrt-as-pow"):
                return self.power(a, ("(1/3)", P_ATOM))
            if name == "exp" and self.flip("exp-as-E**"):
                return self.power(("E", P_ATOM), a)
            if name == "exp2" and self.flip("exp2-as-2**"):
                return self.power(("2", P_ATOM), a)
            if name == "sec" and self.flip("sec-as-1/cos"):
                return self.binop("/", ("1", P_ATOM), (f"cos({a[0]})", P_ATOM), P_MUL)
            if name == "cot" and self.flip("cot-as-1/tan"):
                return self.binop("/", ("1", P_ATOM), (f"tan({a[0]})", P_ATOM), P_MUL)
            if name == "Abs" and self.flip("abs-lower"):
                name = "abs"
            return f"{name}({a[0]})", P_ATOM
        if k == "call2":
            name = ast[1]
            a, b = self.r(ast[2]), self.r(ast[3])
            if name == "Mod" and self.flip("mod-as-%"):
                return self.binop("%", a, b, P_MUL)
            sep = ", " if self.space else ","
            return f"{name}({a[0]}{sep}{b[0]})", P_ATOM
        if k == "heav":
            name = "Heaviside" if self.flip("Heaviside-upper") else "heaviside"
            a = self.r(ast[1])
            if ast[2] is None:
                return f"{name}({a[0]})", P_ATOM
            h = _fmt_num(ast[2], rnd)[0] if not self.plain else repr(float(ast[2]))
            return f"{name}({a[0]}, {h})", P_ATOM
        if k in ("ufunc", "op"):
            args = [self.r(c)[0] for c in ast[2:]]
            name = ast[1]
            if k == "op" and self.unicode_ops and not self.plain and rnd.random() < 0.5:
                # short notations documented for PDE right-hand sides
                simple = ast[2][0] == "var"
                if name == "laplace":
                    self.used_alt.add("unicode-laplace")
                    lap = rnd.choice(["∇²", "∇**2"])
                    if simple and rnd.random() < 0.6:
                        return f"{lap}{' ' if lap.endswith('2') else ''}{self.names.get(ast[2][1], ast[2][1])}", P_ATOM
                    return f"{lap}({self.r(ast[2])[0]})", P_ATOM
                if name == "gradient_squared" and simple:
                    self.used_alt.add("unicode-gradient-squared")
                    return f"|∇{self.names.get(ast[2][1], ast[2][1])}|" + rnd.choice(["²", "**2"]), P_POW
            return f"{name}({(', ' if self.space else ',').join(args)})", P_ATOM
        if k == "cmp":
            return self.binop(ast[1], self.r(ast[2]), self.r(ast[3]), P_CMP)
        raise DomainBug(f"cannot render {k}")


def render(ast, seed=0, names=None, plain=False, **kw):
    r = Renderer(seed, names, plain, **kw)
    return r.text(ast)


def render_info(ast, seed=0, names=None, **kw):
    r = Renderer(seed, names, **kw)
    t = r.text(ast)
    return t, sorted(r.used_alt)


# =========================================================================================
# independent evaluator
# =========================================================================================
_DYADIC_MAX = 2.0**20


def _exact_num(v):
    v = float(v)
    return abs(v) < _DYADIC_MAX and v * 1024.0 == int(v * 1024.0)


def exact_form(ast):
    """True when the term is computed without rounding for 'nice' values in any arrangement:
    a variable, a dyadic literal, or sums/differences/negations of those."""
    k = ast[0]
    if k in ("var", "idx"):
        return True
    if k == "num":
        return _exact_num(ast[1])
    if k == "neg":
        return exact_form(ast[1])
    if k in ("add", "sub"):
        return exact_form(ast[1]) and exact_form(ast[2])
    return False


def jump_anchors(ast, acc=None):
    """argument values that put an exactly computed jump argument on its jump: list of
    ``(name, index|None, value)`` for heaviside/floor/ceiling/comparison nodes over ``x``, ``x - c``,
    ``x + c``, ``c - x``, ``-x``"""
    acc = [] if acc is None else acc

    def solve(a, target=0.0):
        k = a[0]
        if k == "var":
            return (a[1], None, target)
        if k == "idx":
            return (a[1], int(a[2]), target)
        if k == "neg":
            return solve(a[1], -target)
        if k in ("add", "sub") and a[2][0] == "num" and _exact_num(a[2][1]):
            c = float(a[2][1])
            return solve(a[1], target - c if k == "add" else target + c)
        if k in ("add", "sub") and a[1][0] == "num" and _exact_num(a[1][1]):
            c = float(a[1][1])
            return solve(a[2], target - c) if k == "add" else solve(a[2], c - target)
        return None

    k = ast[0]
    found = None
    if k == "heav" and exact_form(ast[1]):
        found = solve(ast[1])
    elif k == "call" and ast[1] in ("floor", "ceiling") and exact_form(ast[2]):
        found = solve(ast[2], 1.0)
    elif k == "cmp" and exact_form(ast[2]) and exact_form(ast[3]):
        found = solve(["sub", ast[2], ast[3]]) if ast[3][0] == "num" else None
    if found is not None:
        acc.append(found)
    for c in ast[1:]:
        if isinstance(c, list):
            jump_anchors(c, acc)
    return acc


SECOND_ORDER = 64.0  # relative uncertainty (in eps*E) assumed for second-order error terms


class Val:
    __slots__ = ("v", "E", "d", "DE")

    def __init__(self, v, E, d=None, DE=None):
        self.v, self.E, self.d, self.DE = v, E, d, DE


class Evaluator:
    """Evaluate an AST with NumPy.

    ``env``: name -> float or ndarray (variables and user constants; indexed variables carry the
    index on their first axis).  ``wrt``: name of the variable (or ``(name, i)`` for an indexed
    one) for forward-mode differentiation.  ``jump_scale``: the jump margin is
    ``1e-9*(1+|u|) + jump_scale*eps*E_u``.
    """

    def __init__(self, env, wrt=None, jump_scale=4096.0):
        self.env = {k: np.asarray(v, dtype=float) for k, v in env.items()}
        self.wrt = wrt
        self.jump_scale = jump_scale
        self.bad = np.zeros((), dtype=bool)
        self.exact_jumps = 0  # number of points evaluated exactly at a jump

    # -- helpers ------------------------------------------------------------------------
    def _mark(self, mask):
        self.bad = self.bad | mask

    def _near(self, dist, u):
        return dist <= 1e-9 * (1 + np.abs(u.v)) + self.jump_scale * EPS * u.E

    def _leaf(self, v, is_wrt):
        v = np.asarray(v, dtype=float)
        if self.wrt is None:
            return Val(v, np.abs(v))
        one = np.ones_like(v) if is_wrt else np.zeros_like(v)
        return Val(v, np.abs(v), one, one.copy())

    def _comb(self, v, kids, partials, extraE=None):
        """value with children and partial derivatives -> Val (E, d, DE propagation)"""
        v = np.asarray(v, dtype=float)
        if not np.all(np.isfinite(v)):
            raise DomainBug("non-finite intermediate value")
        E = np.abs(v)
        for c, p in zip(kids, partials):
            E = E + np.abs(p) * c.E
        if extraE is not None:
            E = E + extraE
        if self.wrt is None:
            return Val(v, E)
        d = 0.0
        DE = 0.0
        for c, p in zip(kids, partials):
            d = d + p * c.d
            DE = DE + np.abs(p) * c.DE
        return Val(v, E, np.asarray(d, dtype=float), np.asarray(DE, dtype=float))

    def _const(self, v):
        return self._leaf(v, False)

    # -- main ---------------------------------------------------------------------------
    def run(self, ast):
        return self.ev(ast)

    def ev(self, ast):
        k = ast[0]
        if k in ("var", "uconst"):
            return self._leaf(self.env[ast[1]], self.wrt == ast[1])
        if k == "idx":
            i = int(ast[2])
            return self._leaf(self.env[ast[1]][i], self.wrt == (ast[1], i) or self.wrt == [ast[1], i])
        if k == "num":
            return self._const(float(ast[1]))
        if k == "const":
            return self._const(math.pi if ast[1] == "pi" else math.e)
        if k == "neg":
            a = self.ev(ast[1])
            return self._comb(-a.v, [a], [-1.0])
        if k == "add":
            a, b = self.ev(ast[1]), self.ev(ast[2])
            return self._comb(a.v + b.v, [a, b], [1.0, 1.0])
        if k == "sub":
            a, b = self.ev(ast[1]), self.ev(ast[2])
            return self._comb(a.v - b.v, [a, b], [1.0, -1.0])
        if k == "mul":
            a, b = self.ev(ast[1]), self.ev(ast[2])
            # second-order term: matters only where both factors (and so the first-order scale)
            # vanish, e.g. (0.3333333333333333 - 1/3)*(...)
            return self._comb(a.v * b.v, [a, b], [b.v, a.v], extraE=SECOND_ORDER * EPS * a.E * b.E)
        if k == "div":
            a, b = self.ev(ast[1]), self.ev(ast[2])
            if np.any(np.abs(b.v) < 0.25):
                raise DomainBug("denominator too close to zero")
            return self._comb(a.v / b.v, [a, b], [1 / b.v, -a.v / b.v**2])
        if k == "pow":
            a = self.ev(ast[1])
            n = int(ast[2])
            if n < 0 and np.any(np.abs(a.v) < 0.25):
                raise DomainBug("base of negative power too close to zero")
            if n == 0:
                return self._comb(np.ones_like(a.v), [a], [np.zeros_like(a.v)])
            v = a.v ** n if n > 0 else 1.0 / a.v ** (-n)
            p = n * (a.v ** (n - 1) if n >= 1 else 1.0 / a.v ** (1 - n))
            extra = None
            if n >= 2:
                # higher-order terms of (|a| + delta)**n - |a|**n - n*|a|**(n-1)*delta for a base known
                # to delta = SECOND_ORDER*eps*E_a: they dominate where the base vanishes
                # ((0.3333333333333333 - 1/3)**2 is 3e-34 with rationals, 0 in floating point)
                delta = SECOND_ORDER * EPS * a.E
                absa = np.abs(a.v)
                extra = sum(math.comb(n, j) * absa ** (n - j) * delta ** j for j in range(2, n + 1)) / EPS
            return self._comb(v, [a], [p], extraE=extra)
        if k == "rpow":
            a, b = self.ev(ast[1]), self.ev(ast[2])
            if np.any(a.v < 0.25):
                raise DomainBug("base of real power not positive")
            v = np.exp(b.v * np.log(a.v))
            return self._comb(v, [a, b], [b.v * v / a.v, np.log(a.v) * v])
        if k == "call":
            name = ast[1]
            dom, f, df, _iv, fl = FUNC1[name]
            a = self.ev(ast[2])
            lo, hi = DOMAINS[dom]
            if np.any(a.v < lo - 1e-9) or np.any(a.v > hi + 1e-9):
                raise DomainBug(f"{name} argument outside its guarded domain {dom}")
            if "j" in fl:
                v = f(a.v)
                if exact_form(ast[2]):
                    self.exact_jumps += int(np.sum(a.v == np.round(a.v)))
                else:
                    self._mark(self._near(np.abs(a.v - np.round(a.v)), a))
                return self._comb(v, [a], [np.zeros_like(a.v)])
            return self._comb(f(a.v), [a], [df(a.v)])
        if k == "call2":
            name = ast[1]
            a, b = self.ev(ast[2]), self.ev(ast[3])
            if name == "hypot":
                v = np.sqrt(a.v * a.v + b.v * b.v)
                safe = np.where(v > 0, v, 1.0)
                pa = np.where(v > 0, a.v / safe, 1.0)
                pb = np.where(v > 0, b.v / safe, 1.0)
                return self._comb(v, [a, b], [pa, pb])
            if name == "atan2":
                r2 = a.v * a.v + b.v * b.v
                if np.any(r2 < 0.05):
                    raise DomainBug("atan2 too close to the origin")
                # branch cut: a == 0 and b < 0
                cut = (b.v < 0) & self._near(np.abs(a.v), a)
                if exact_form(ast[2]):
                    cut = cut & (a.v != 0)
                self._mark(cut)
                return self._comb(np.arctan2(a.v, b.v), [a, b], [b.v / r2, -a.v / r2])
            if name == "Mod":
                if np.any(np.abs(b.v) < 0.25):
                    raise DomainBug("Mod divisor too close to zero")
                q = a.v / b.v
                fq = np.floor(q)
                qE = (a.E + np.abs(q) * b.E) / np.abs(b.v) + np.abs(q)
                near = np.abs(q - np.round(q)) <= 1e-9 * (1 + np.abs(q)) + self.jump_scale * EPS * qE
                if exact_form(ast[2]) and ast[3][0] == "num" and _exact_num(ast[3][1]):
                    # exact arguments: a point on the jump is judged when it is hit exactly
                    hit = (q == fq) & (fq * b.v == a.v)
                    self.exact_jumps += int(np.sum(hit))
                    self._mark(near & ~hit)
                else:
                    self._mark(near)
                v = a.v - b.v * fq
                # (the result is only defined to eps*|b|: rewriting the dividend by whole multiples of the divisor
                # is exact algebra - sympy does it - but costs that much; thorough tier, numba route)
                return self._comb(v, [a, b], [np.ones_like(q), -fq], extraE=np.abs(b.v))
            raise DomainBug(name)
        if k == "heav":
            a = self.ev(ast[1])
            h0 = 0.5 if ast[2] is None else float(ast[2])
            v = np.where(a.v > 0, 1.0, np.where(a.v < 0, 0.0, h0))
            if exact_form(ast[1]):
                self.exact_jumps += int(np.sum(a.v == 0))
            else:
                self._mark(self._near(np.abs(a.v), a))
            return self._comb(v, [a], [np.zeros_like(a.v)])
        if k == "ufunc":
            return self.ev(UFUNCS[ast[1]][2](*ast[2:]))
        if k == "cmp":
            a, b = self.ev(ast[2]), self.ev(ast[3])
            diff = a.v - b.v
            dv = Val(diff, a.E + b.E + np.abs(diff))
            if exact_form(ast[2]) and exact_form(ast[3]):
                self.exact_jumps += int(np.sum(diff == 0))
            else:
                self._mark(self._near(np.abs(diff), dv))
            op = ast[1]
            v = {">": diff > 0, "<": diff < 0, ">=": diff >= 0, "<=": diff <= 0}[op]
            return Val(v.astype(float), np.ones_like(diff) + 0 * dv.E,
                       None if self.wrt is None else np.zeros_like(diff),
                       None if self.wrt is None else np.zeros_like(diff))
        raise DomainBug(f"cannot evaluate node {k}")


class Result:
    """value ``v``, error scale ``E``, mask ``bad`` (not judgeable), derivative ``d`` with scale
    ``DE`` (when requested) and the number of points sitting exactly on a judged jump"""

    def __init__(self, v, E, bad, d, DE, exact_jumps):
        self.v, self.E, self.bad, self.d, self.DE, self.exact_jumps = v, E, bad, d, DE, exact_jumps


def evaluate_ast(ast, env, wrt=None, shape=None):
    """Evaluate; everything is broadcast to ``shape`` (default: natural broadcast shape)."""
    ev = Evaluator(env, wrt=wrt)
    with np.errstate(all="ignore"):
        r = ev.run(ast)
    if shape is None:
        shape = np.broadcast(r.v, r.E, ev.bad).shape
    bc = lambda a: np.broadcast_to(a, shape)  # noqa: E731
    return Result(bc(r.v), bc(r.E), bc(ev.bad), None if wrt is None else bc(r.d),
                  None if wrt is None else bc(r.DE), ev.exact_jumps)


# =========================================================================================
# argument values
# =========================================================================================
def values_in_range(seed, shape, lo, hi, nice=0.3):
    """Deterministic values in [lo, hi]: uniform draws, a fraction replaced by 'nice' values
    (so that exact hits of jumps such as ``heaviside(x - 0.5)`` occur)."""
    rng = np.random.default_rng(int(seed))
    vals = rng.uniform(lo, hi, size=shape)
    nice_ok = np.array([v for v in NICE if lo <= v <= hi] + [lo, hi])
    pick = rng.random(size=shape) < nice
    idx = rng.integers(0, len(nice_ok), size=shape)
    return np.where(pick, nice_ok[idx], vals)
