"""Operator catalogue per grid class and generation of admissible field data.

The catalogue lists, per grid class, the registered operators with ranks and the documented
options.  ``field_data`` produces valid-cell data (or padded data) of the right rank that
respects the symmetry preconditions the spherical operators assert in ``safe`` mode
(theta-components zero, T_thth == T_phph, ...), which every real caller must respect.
"""

from __future__ import annotations

import numpy as np
from hypothesis import strategies as st

from . import env

env.setup()

from .gen_bcs import axis_names  # noqa: E402
from .gen_grids import axes_bounds, dim_of, rng_array  # noqa: E402

METHODS = ["central", "forward", "backward"]

# name -> (rank_in, rank_out, order of derivative, kind of options)
BASE_OPS = {
    "laplace": (0, 0, 2, None),
    "gradient": (0, 1, 1, "method"),
    "gradient_squared": (0, 0, 1, "central"),
    "divergence": (1, 0, 1, "method"),
    "vector_gradient": (1, 2, 1, "method_cart"),
    "vector_laplace": (1, 1, 2, None),
    "tensor_divergence": (2, 1, 1, "method_cart"),
    "tensor_double_divergence": (2, 0, 2, None),
}

OPS_BY_CLASS = {
    "unit": ["laplace", "gradient", "gradient_squared", "divergence", "vector_gradient",
             "vector_laplace", "tensor_divergence"],
    "cart": ["laplace", "gradient", "gradient_squared", "divergence", "vector_gradient",
             "vector_laplace", "tensor_divergence"],
    "polar": ["laplace", "gradient", "gradient_squared", "divergence", "vector_gradient",
              "tensor_divergence"],
    "sph": ["laplace", "gradient", "gradient_squared", "divergence", "vector_gradient",
            "tensor_divergence", "tensor_double_divergence"],
    "cyl": ["laplace", "gradient", "gradient_squared", "divergence", "vector_gradient",
            "vector_laplace", "tensor_divergence"],
}
# operators accepting the `method` option, per grid class (from the factories' signatures)
METHOD_OPS = {
    "unit": ["gradient", "divergence", "tensor_divergence", "vector_gradient"],
    "cart": ["gradient", "divergence", "tensor_divergence", "vector_gradient"],
    "polar": ["gradient"],
    "sph": ["gradient", "divergence", "vector_gradient"],
    "cyl": [],
}
SCIPY_OPS = ["laplace", "gradient", "divergence", "vector_gradient", "vector_laplace",
             "tensor_divergence"]


def op_info(name):
    """(rank_in, rank_out, derivative order)"""
    if name.startswith("d2_d"):
        return 0, 0, 2
    if name.startswith("d_d"):
        return 0, 0, 1
    r = BASE_OPS[name]
    return r[0], r[1], r[2]


@st.composite
def operators(draw, gspec, names=None, with_patterns=True, with_options=True):
    """Draw {"name":..., "opts": {...}} for the grid spec."""
    cls = gspec["cls"]
    pool = list(OPS_BY_CLASS[cls]) if names is None else [n for n in names if n in OPS_BY_CLASS[cls]]
    if with_patterns and names is None:
        pool = pool + ["__d_d", "__d2_d"]
    name = draw(st.sampled_from(pool))
    opts = {}
    if name == "__d_d":
        ax = draw(st.sampled_from(axis_names(gspec)))
        suffix = draw(st.sampled_from(["", "_forward", "_backward"]))
        return {"name": f"d_d{ax}{suffix}", "opts": {}}
    if name == "__d2_d":
        ax = draw(st.sampled_from(axis_names(gspec)))
        return {"name": f"d2_d{ax}2", "opts": {}}
    if not with_options:
        return {"name": name, "opts": {}}
    if name in METHOD_OPS[cls]:
        m = draw(st.sampled_from(["default"] + METHODS))
        if m != "default":
            opts["method"] = m
    elif name == "gradient_squared":
        c = draw(st.sampled_from(["default", True, False]))
        if c != "default":
            opts["central"] = c
    if cls == "sph" and name in ("laplace", "divergence", "tensor_divergence",
                                 "tensor_double_divergence"):
        c = draw(st.sampled_from(["default", True, False]))
        if c != "default":
            opts["conservative"] = c
    return {"name": name, "opts": opts}


def symmetrize(gspec, rank, data):
    """Impose the symmetry preconditions of spherically symmetric fields (in place)."""
    if gspec["cls"] != "sph":
        return data
    if rank == 1:
        data[1:] = 0  # only a radial component
    elif rank == 2:
        r, th, ph = 0, 1, 2
        for i, j in ((r, th), (th, r), (r, ph), (ph, r)):
            data[i, j] = 0
        data[th, th] = data[ph, ph]
        data[ph, th] = -data[th, ph]
    return data


def field_data(gspec, rank, seed, dtype="f8", dist="normal", full=False, scale=1.0):
    """Random admissible data: valid cells only, or the padded array when ``full``."""
    d = dim_of(gspec)
    shape = tuple((n + 2) if full else n for n in gspec["shape"])
    data = rng_array(seed, (d,) * rank + shape, dtype, dist, scale)
    return symmetrize(gspec, rank, data)


def weight_bound(gspec, order):
    """Upper bound for sum_j |w_ij| of the registered operators of the given derivative
    order (used for condition-aware tolerances)."""
    bnds = axes_bounds(gspec)
    dxs = [(hi - lo) / n for (lo, hi), n in zip(bnds, gspec["shape"])]
    dxmin = min(dxs)
    nax = len(dxs)
    if gspec["cls"] in ("polar", "sph", "cyl"):
        rmin = bnds[0][0] + dxs[0] / 2
    else:
        rmin = np.inf
    if order == 2:
        return 4 * nax / dxmin**2 + 4 / (rmin * dxmin) + 4 / rmin**2
    return 2 * nax / dxmin + 4 / rmin


def noncorner_max(u_full, nax):
    """max |u| over valid cells and face ghost cells (corner ghost cells are never set and
    may hold uninitialised memory)"""
    u = np.abs(np.asarray(u_full))
    shape = u.shape[u.ndim - nax:]
    ghost_count = np.zeros(shape, int)
    for a, n in enumerate(shape):
        idx = np.zeros(n, int)
        idx[0] = idx[-1] = 1
        ghost_count += idx.reshape([-1 if i == a else 1 for i in range(nax)])
    vals = u[..., ghost_count <= 1]
    vals = vals[np.isfinite(vals)]
    return float(vals.max()) if vals.size else 0.0


def op_tolerance(gspec, opname, u_full, rel=1e-12):
    """absolute tolerance for comparing two evaluations of the same operator result"""
    _, _, order = op_info(opname)
    umax = noncorner_max(u_full, len(gspec["shape"]))
    w = weight_bound(gspec, order)
    if opname == "gradient_squared":
        return rel * (w * umax) ** 2 + 1e-300
    return rel * w * umax + 1e-300
