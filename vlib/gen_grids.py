"""Hypothesis strategies for grids (JSON-able specs) and the builder.

Spec::

    {"cls": "unit"|"cart"|"polar"|"sph"|"cyl",
     "shape": [n, ...],
     "bounds": [[lo, hi], ...]      # cart
     "radius": [r_in, r_out]        # polar, sph, cyl (r_in == 0 -> no hole)
     "bounds_z": [lo, hi]           # cyl
     "periodic": [bool, ...]}       # per grid axis (unit, cart, cyl: [False, periodic_z])
"""

from __future__ import annotations

import math

from hypothesis import strategies as st

from . import env

env.setup()

import numpy as np  # noqa: E402
import pde  # noqa: E402

ALL_CLASSES = ("unit", "cart", "polar", "sph", "cyl")


def log_float(lo: float, hi: float):
    """log-uniform float in [lo, hi]; shrinks towards 1 when 1 is inside."""
    return st.floats(min_value=math.log10(lo), max_value=math.log10(hi)).map(
        lambda e: float(10.0**e))


def length_strategy(lo=1e-3, hi=1e3):
    return st.one_of(st.sampled_from([1.0, 2.0, 0.5, 3.0, 10.0]), log_float(lo, hi))


def offset_strategy(mag=1e3):
    return st.one_of(st.sampled_from([0.0, 0.0, -1.0, 1.0, -0.5]),
                     st.floats(min_value=-mag, max_value=mag))


@st.composite
def grids(draw, classes=ALL_CLASSES, min_cells=1, max_cells=8, max_total=512, max_axes=3,
          min_axes=1, len_lo=1e-3, len_hi=1e3, offset_mag=1e3, allow_hole=True,
          allow_periodic=True, force_hole=None):
    """Draw a grid spec."""
    cls = draw(st.sampled_from(list(classes)))
    ncell = st.integers(min_cells, max_cells)
    if cls in ("unit", "cart"):
        dim = draw(st.integers(min_axes, max_axes))
        shape = [draw(ncell) for _ in range(dim)]
        while np.prod(shape) > max_total:
            i = int(np.argmax(shape))
            shape[i] = max(min_cells, shape[i] // 2)
        per = [draw(st.booleans()) if allow_periodic else False for _ in range(dim)]
        if cls == "unit":
            return {"cls": "unit", "shape": shape, "periodic": per}
        bounds = []
        for _ in range(dim):
            lo = draw(offset_strategy(offset_mag))
            ln = draw(length_strategy(len_lo, len_hi))
            hi = lo + ln
            if not hi > lo:  # length below resolution at this offset
                lo = 0.0
                hi = ln
            bounds.append([lo, hi])
        return {"cls": "cart", "shape": shape, "bounds": bounds, "periodic": per}
    # symmetric grids
    if force_hole is None:
        hole = draw(st.booleans()) if allow_hole else False
    else:
        hole = force_hole
    width = draw(length_strategy(len_lo, len_hi))
    r_in = draw(st.one_of(st.sampled_from([1.0, 0.5, 2.0]), log_float(1e-3, 1e2))) if hole else 0.0
    r_out = r_in + width
    if not r_out > r_in:
        r_in, r_out = 0.0, width
    if cls in ("polar", "sph"):
        return {"cls": cls, "shape": [draw(ncell)], "radius": [r_in, r_out], "periodic": [False]}
    shape = [draw(ncell), draw(ncell)]
    lo = draw(offset_strategy(offset_mag))
    ln = draw(length_strategy(len_lo, len_hi))
    hi = lo + ln
    if not hi > lo:
        lo, hi = 0.0, ln
    pz = draw(st.booleans()) if allow_periodic else False
    return {"cls": "cyl", "shape": shape, "radius": [r_in, r_out], "bounds_z": [lo, hi],
            "periodic": [False, pz]}


def build_grid(spec):
    """Build the py-pde grid described by ``spec``."""
    cls = spec["cls"]
    shape = [int(n) for n in spec["shape"]]
    if cls == "unit":
        return pde.UnitGrid(shape, periodic=list(spec["periodic"]))
    if cls == "cart":
        return pde.CartesianGrid([tuple(b) for b in spec["bounds"]], shape,
                                 periodic=list(spec["periodic"]))
    r_in, r_out = spec["radius"]
    radius = r_out if r_in == 0 else (r_in, r_out)
    if cls == "polar":
        return pde.PolarSymGrid(radius, shape[0])
    if cls == "sph":
        return pde.SphericalSymGrid(radius, shape[0])
    if cls == "cyl":
        return pde.CylindricalSymGrid(radius, tuple(spec["bounds_z"]), shape,
                                      periodic_z=bool(spec["periodic"][1]))
    raise ValueError(cls)


def grid_key(spec):
    """Structural class of a grid spec (for distinctness keys / labels)."""
    hole = bool(spec.get("radius", [0])[0] > 0) if "radius" in spec else False
    return (spec["cls"], tuple(spec["shape"]), hole, tuple(bool(p) for p in spec["periodic"]))


def grid_label(spec):
    hole = "radius" in spec and spec["radius"][0] > 0
    per = any(spec["periodic"])
    return f"{spec['cls']}{len(spec['shape'])}d" + ("+hole" if hole else "") + ("+per" if per else "")


def axes_bounds(spec):
    """Bounds per grid axis from the spec (independent of py-pde)."""
    cls = spec["cls"]
    if cls == "unit":
        return [(0.0, float(n)) for n in spec["shape"]]
    if cls == "cart":
        return [tuple(map(float, b)) for b in spec["bounds"]]
    if cls in ("polar", "sph"):
        return [tuple(map(float, spec["radius"]))]
    return [tuple(map(float, spec["radius"])), tuple(map(float, spec["bounds_z"]))]


def dim_of(spec):
    return {"unit": len(spec["shape"]), "cart": len(spec["shape"]), "polar": 2, "sph": 3, "cyl": 3}[spec["cls"]]


def rng_array(seed: int, shape, dtype="f8", dist="normal", scale=1.0):
    """Deterministic pseudo-random array as a pure function of a drawn integer."""
    rng = np.random.default_rng(int(seed))
    def one():
        if dist == "uniform":
            return rng.uniform(-1, 1, size=shape)
        if dist == "int":
            return rng.integers(-5, 6, size=shape).astype(float)
        return rng.standard_normal(size=shape)
    a = one()
    if dtype == "c16":
        a = a + 1j * one()
    return a * scale
