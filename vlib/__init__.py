"""Shared library of the py-pde property-based verification machinery."""
