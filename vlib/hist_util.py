"""Helpers shared by the stateful check modules C15 and C20."""

from __future__ import annotations

import functools
import os
import traceback

from . import env
from .core import Violation

REPO_PDE = os.path.join(env.REPO, "pde") + os.sep
VERIF = env.VERIF_DIR + os.sep

#: exception types that the worker would count as a documented rejection of the input
REJECTION_TYPES = (ValueError, RuntimeError, NotImplementedError)


def guarded(method):
    """Decorator for ``op_*``/``invariant`` methods of histories whose reference model
    predicts for every call whether it must succeed.

    A documented validation error escaping from py-pde where the model expects success is a
    violation (the worker would otherwise count it as a rejected input and the machine
    would stop).  Errors raised by harness code itself are passed on unchanged.
    The history must provide ``self.ctx`` (name of the current operation).
    """

    @functools.wraps(method)
    def wrapper(self, *args, **kwargs):
        try:
            return method(self, *args, **kwargs)
        except REJECTION_TYPES as exc:
            tb = traceback.extract_tb(exc.__traceback__)
            frames = [fr for fr in tb if os.path.abspath(fr.filename).startswith((REPO_PDE, VERIF))]
            if frames and os.path.abspath(frames[-1].filename).startswith(REPO_PDE):
                fr = frames[-1]
                ctx = getattr(self, "ctx", "?")
                raise Violation(
                    f"[{ctx}] call that must succeed was rejected: {type(exc).__name__}: {exc} "
                    f"@ {os.path.relpath(fr.filename, env.REPO)}:{fr.name}",
                    key=f"{str(ctx).split(':')[0]}:unexpected-{type(exc).__name__}@{fr.name}") from exc
            raise

    return wrapper


def guard_class(cls, extra=()):
    """apply :func:`guarded` to all ``op_*`` methods, ``invariant`` and ``extra``"""
    for name in list(vars(cls)):
        if name.startswith("op_") or name == "invariant" or name in extra:
            setattr(cls, name, guarded(getattr(cls, name)))
    return cls


def expect_rejection(types, fn, what, key):
    """``fn()`` must raise one of ``types`` (a documented rejection)"""
    try:
        fn()
    except types:
        return
    raise Violation(f"documented rejection did not happen: {what}", key=key)
